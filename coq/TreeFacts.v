(* TreeFacts.v — C02/C05: what Goit reads from a stored snapshot is exactly what
   was staged when it was written.

   Architecture
   (a) [group]: a declarative grouping of the staged entries into a pure tree
       datatype [item]; [write_tree] is the serialisation of [group]
       ([write_tree_group], no validity needed).
   (b) [flat_item] of [group es] is [es] for valid entries ([group_flat]).
   (c) if the store holds every written tree payload under its [obj_id]
       ([Good]), both readers ([walk_tree]+[flatten], [spec_flatten]) give the
       items / the entries back.

   Main results (after the section is closed they take the two borrowed facts
   as explicit premises):
     write_tree_group                   write_tree = serialisation of group
     write_tree_fuel_gen, write_tree_fuel        (1) fuel / termination
     spec_flatten_write_tree            (2) independent reader gives es back
     walk_write_tree(_subs)             (3) walk_tree + flatten give es back
     tree_listing_write_tree, group_shape        (4) top-level listing
     walk_tree_mono, spec_flatten_mono  (5) fuel monotonicity
     depth_le_store, *_store_fuel       fuel S (length st) (as in Repo.v) suffices
     ex_entries_valid, ex_unsorted_*    (6) non-vacuity

   The facts borrowed from BytesFacts.v / ObjFacts.v are Section hypotheses
   ([H_payload_roundtrip], [H_bytes_eqb_eq]).  [sha1] is opaque: only
   [sha1_length] is used. *)
From Coq Require Import Strings.Byte.
From Coq Require Import List Bool NArith Arith Lia.
From Goit Require Import Bytes Sha1 Obj Tree.
Import ListNotations.

#[local] Arguments sha1 : simpl never.
#[local] Arguments obj_id : simpl never.
#[local] Arguments payload : simpl never.
#[local] Arguments header : simpl never.
#[local] Arguments tree_line : simpl never.

(* ================================================================== *)
(** * Bytes: splitting *)

Lemma tf_beqb_true : forall a b, beqb a b = true -> a = b.
Proof. intros a b H. apply Byte.byte_dec_bl. exact H. Qed.

Lemma tf_beqb_refl : forall a, beqb a a = true.
Proof. intros a. apply Byte.byte_dec_lb. reflexivity. Qed.

Lemma tf_beqb_false : forall a b, a <> b -> beqb a b = false.
Proof.
  intros a b H. destruct (beqb a b) eqn:E; [|reflexivity].
  apply tf_beqb_true in E. contradiction.
Qed.

Lemma tf_split1_app_sep : forall sep a b,
  ~ In sep a -> split1 sep (a ++ sep :: b) = (a, Some b).
Proof.
  intros sep a b. induction a as [|c a IH]; intros H; simpl.
  - rewrite tf_beqb_refl. reflexivity.
  - rewrite tf_beqb_false.
    + rewrite IH; [reflexivity|]. intros X. apply H. right. exact X.
    + intros X. apply H. left. exact X.
Qed.

Lemma tf_split1_none : forall sep a, ~ In sep a -> split1 sep a = (a, None).
Proof.
  intros sep a. induction a as [|c a IH]; intros H; simpl.
  - reflexivity.
  - rewrite tf_beqb_false.
    + rewrite IH; [reflexivity|]. intros X. apply H. right. exact X.
    + intros X. apply H. left. exact X.
Qed.

Lemma tf_split1_some_inv : forall sep s a b,
  split1 sep s = (a, Some b) -> s = a ++ sep :: b /\ ~ In sep a.
Proof.
  intros sep s. induction s as [|c s IH]; intros a b H; simpl in H.
  - discriminate.
  - destruct (beqb c sep) eqn:E.
    + inversion H; subst. apply tf_beqb_true in E. subst. split; [reflexivity|].
      intros X; exact X.
    + destruct (split1 sep s) as [a' b'] eqn:E2. inversion H; subst.
      destruct (IH a' b eq_refl) as [Hs Hn]. subst s. split; [reflexivity|].
      intros [X|X]; [|exact (Hn X)]. subst c. rewrite tf_beqb_refl in E. discriminate.
Qed.

Lemma tf_split1_none_inv : forall sep s a,
  split1 sep s = (a, None) -> a = s /\ ~ In sep s.
Proof.
  intros sep s. induction s as [|c s IH]; intros a H; simpl in H.
  - inversion H. split; [reflexivity|]. intros X; exact X.
  - destruct (beqb c sep) eqn:E; [discriminate|].
    destruct (split1 sep s) as [a' b'] eqn:E2. inversion H; subst.
    destruct (IH a' eq_refl) as [Hs Hn]. subst a'. split; [reflexivity|].
    intros [X|X]; [|exact (Hn X)]. subst c. rewrite tf_beqb_refl in E. discriminate.
Qed.

Lemma tf_split_all_split1 : forall sep s,
  split_all sep s =
  match split1 sep s with
  | (a, None) => [a]
  | (a, Some r) => a :: split_all sep r
  end.
Proof.
  intros sep s. induction s as [|c s IH]; simpl.
  - reflexivity.
  - destruct (beqb c sep); [reflexivity|].
    rewrite IH. destruct (split1 sep s) as [a [r|]]; reflexivity.
Qed.

Lemma tf_take_until_app : forall b a r,
  ~ In b a -> take_until b (a ++ b :: r) = Some (a, r).
Proof.
  intros b a r. induction a as [|c a IH]; intros H; simpl.
  - rewrite tf_beqb_refl. reflexivity.
  - rewrite tf_beqb_false.
    + rewrite IH; [reflexivity|]. intros X. apply H. right. exact X.
    + intros X. apply H. left. exact X.
Qed.

Lemma tf_firstn_app_len : forall (A : Type) n (a b : list A),
  length a = n -> firstn n (a ++ b) = a.
Proof.
  intros A n a b H. subst n. induction a as [|x a IH]; simpl.
  - destruct b; reflexivity.
  - rewrite IH. reflexivity.
Qed.

Lemma tf_skipn_app_len : forall (A : Type) n (a b : list A),
  length a = n -> skipn n (a ++ b) = b.
Proof.
  intros A n a b H. subst n. induction a as [|x a IH]; simpl.
  - reflexivity.
  - exact IH.
Qed.

Lemma tf_path_depth_app : forall a b, path_depth (a ++ b) = path_depth a + path_depth b.
Proof.
  intros a b. unfold path_depth. rewrite filter_app, app_length. reflexivity.
Qed.

Lemma tf_path_depth_none : forall a, ~ In c_slash a -> path_depth a = 0.
Proof.
  intros a. unfold path_depth. induction a as [|c a IH]; intros H; simpl.
  - reflexivity.
  - rewrite tf_beqb_false.
    + apply IH. intros X. apply H. right. exact X.
    + intros X. apply H. left. exact X.
Qed.

Lemma tf_path_depth_split : forall p d rest,
  split1 c_slash p = (d, Some rest) -> path_depth p = S (path_depth rest).
Proof.
  intros p d rest H. apply tf_split1_some_inv in H. destruct H as [Hp Hn]. subst p.
  rewrite tf_path_depth_app, (tf_path_depth_none _ Hn). reflexivity.
Qed.

(* ================================================================== *)
(** * Unfolding equations for the nested loops of the model *)

Section WtLoop.
  Variable rec : list entry -> option (bytes * list bytes).
  Definition wt_flush (dir : bytes) (buf : list entry) (data : bytes) (subs : list bytes)
    : option (bytes * list bytes) :=
    match rec buf with
    | None => None
    | Some (d, ss) =>
        Some (data ++ tree_line mode_dir dir (obj_id KTree d), subs ++ ss ++ [d])
    end.
  Fixpoint wt_loop (es : list entry) (dir : bytes) (buf : list entry) (data : bytes)
                   (subs : list bytes) {struct es} : option (bytes * list bytes) :=
    match es with
    | [] => if is_nil dir then Some (data, subs) else wt_flush dir buf data subs
    | e :: es' =>
      match split1 c_slash (e_path e) with
      | (_, None) =>
          match (if is_nil dir then Some (data, subs) else wt_flush dir buf data subs) with
          | None => None
          | Some (data', subs') =>
              wt_loop es' [] [] (data' ++ tree_line mode_file (e_path e) (e_id e)) subs'
          end
      | (d, Some rest) =>
          let ne := mkE (e_id e) rest in
          if is_nil dir then wt_loop es' d (buf ++ [ne]) data subs
          else if bytes_eqb dir d then wt_loop es' dir (buf ++ [ne]) data subs
          else match wt_flush dir buf data subs with
               | None => None
               | Some (data', subs') => wt_loop es' d [ne] data' subs'
               end
      end
    end.
End WtLoop.

Lemma write_tree_S : forall f es,
  write_tree (S f) es = wt_loop (write_tree f) es [] [] [] [].
Proof. reflexivity. Qed.

Section WkGo.
  Variable rec : bytes -> option (list node).
  Variable st : store.
  Fixpoint wk_go (items : list (bytes * bytes * bytes)) : option (list node) :=
    match items with
    | [] => Some []
    | (mode, name, id) :: r =>
        let sub :=
          if bytes_eqb mode mode_dir then
            match get_kind st KTree id with
            | None => None
            | Some d => rec d
            end
          else Some [] in
        match sub, wk_go r with
        | Some ch, Some ns => Some (Node id name ch :: ns)
        | _, _ => None
        end
    end.
End WkGo.

Lemma walk_tree_S : forall f st data,
  walk_tree (S f) st data =
  match parse_tree_items (S (length data)) data with
  | None => None
  | Some items => wk_go (walk_tree f st) st items
  end.
Proof. reflexivity. Qed.

Section SpGo.
  Variable rec : bytes -> bytes -> option (list entry).
  Variable pre : bytes.
  Fixpoint sp_go (items : list (bytes * bytes * bytes)) : option (list entry) :=
    match items with
    | [] => Some []
    | (mode, name, cid) :: r =>
        let full := join_path pre name in
        let sub := if bytes_eqb mode mode_dir then rec full cid
                   else Some [mkE cid full] in
        match sub, sp_go r with
        | Some a, Some b => Some (a ++ b)
        | _, _ => None
        end
    end.
End SpGo.

Lemma spec_flatten_S : forall f st pre id,
  spec_flatten (S f) st pre id =
  match st_lookup st id with
  | None => None
  | Some p =>
    match parse_payload p with
    | Some (KTree, data) =>
      match spec_items (S (length data)) data with
      | None => None
      | Some items => sp_go (spec_flatten f st) pre items
      end
    | _ => None
    end
  end.
Proof. reflexivity. Qed.

Lemma flatten_node_eq : forall root id name ch,
  flatten_node root (Node id name ch) =
  match ch with
  | [] => [mkE id (join_path root name)]
  | _ => flat_map (flatten_node (join_path root name)) ch
  end.
Proof.
  intros root id name ch. destruct ch as [|c ch]; [reflexivity|].
  change (flatten_node root (Node id name (c :: ch)))
    with ((fix go (l : list node) : list entry :=
             match l with
             | [] => []
             | c :: r => flatten_node (join_path root name) c ++ go r
             end) (c :: ch)).
  generalize (c :: ch). intros l. induction l as [|x l IH]; [reflexivity|].
  simpl flat_map. rewrite <- IH. reflexivity.
Qed.

(* ================================================================== *)
(** * The pure tree datatype and the declarative grouping *)

Inductive item :=
| IFile (name id : bytes)
| IDir (name : bytes) (sub : list item).

(* serialisation of one level; a directory's id is the id of its serialised sub-tree *)
Fixpoint ser_item (i : item) : bytes :=
  match i with
  | IFile n id => tree_line mode_file n id
  | IDir n sub => tree_line mode_dir n (obj_id KTree (flat_map ser_item sub))
  end.
Definition ser (its : list item) : bytes := flat_map ser_item its.

(* the sub-tree payloads written, children before parents *)
Fixpoint subs_item (i : item) : list bytes :=
  match i with
  | IFile _ _ => []
  | IDir n sub => flat_map subs_item sub ++ [flat_map ser_item sub]
  end.
Definition subsl (its : list item) : list bytes := flat_map subs_item its.

Fixpoint flat_item (pre : bytes) (i : item) : list entry :=
  match i with
  | IFile n id => [mkE id (join_path pre n)]
  | IDir n sub => flat_map (flat_item (join_path pre n)) sub
  end.
Definition flat_items (pre : bytes) (its : list item) : list entry := flat_map (flat_item pre) its.

Fixpoint node_of (i : item) : node :=
  match i with
  | IFile n id => Node id n []
  | IDir n sub => Node (obj_id KTree (flat_map ser_item sub)) n (map node_of sub)
  end.

Fixpoint idepth (i : item) : nat :=
  match i with
  | IFile _ _ => 0
  | IDir _ sub => S (fold_right (fun x m => Nat.max (idepth x) m) 0 sub)
  end.
Definition ldepth (its : list item) : nat := fold_right (fun x m => Nat.max (idepth x) m) 0 its.

Definition triple (i : item) : bytes * bytes * bytes :=
  match i with
  | IFile n id => (mode_file, n, id)
  | IDir n sub => (mode_dir, n, obj_id KTree (ser sub))
  end.

Lemma ser_item_dir : forall n sub, ser_item (IDir n sub) = tree_line mode_dir n (obj_id KTree (ser sub)).
Proof. reflexivity. Qed.
Lemma subs_item_dir : forall n sub, subs_item (IDir n sub) = subsl sub ++ [ser sub].
Proof. reflexivity. Qed.
Lemma flat_item_dir : forall pre n sub, flat_item pre (IDir n sub) = flat_items (join_path pre n) sub.
Proof. reflexivity. Qed.
Lemma node_of_dir : forall n sub, node_of (IDir n sub) = Node (obj_id KTree (ser sub)) n (map node_of sub).
Proof. reflexivity. Qed.
Lemma idepth_dir : forall n sub, idepth (IDir n sub) = S (ldepth sub).
Proof. reflexivity. Qed.

Lemma ser_app : forall a b, ser (a ++ b) = ser a ++ ser b.
Proof. intros. apply flat_map_app. Qed.
Lemma subsl_app : forall a b, subsl (a ++ b) = subsl a ++ subsl b.
Proof. intros. apply flat_map_app. Qed.
Lemma flat_items_app : forall pre a b, flat_items pre (a ++ b) = flat_items pre a ++ flat_items pre b.
Proof. intros. apply flat_map_app. Qed.

Lemma ldepth_in : forall i its, In i its -> idepth i <= ldepth its.
Proof.
  intros i its. induction its as [|x its IH]; intros H; simpl in *.
  - contradiction.
  - destruct H as [H|H].
    + subst. apply Nat.le_max_l.
    + apply IH in H. fold (ldepth its). lia.
Qed.

(* the grouping: same control structure as writeTreeObject, but producing items *)
Section GLoop.
  Variable rec : list entry -> option (list item).
  Definition g_flush (dir : bytes) (buf : list entry) : option (list item) :=
    match rec buf with
    | None => None
    | Some sub => Some [IDir dir sub]
    end.
  Definition g_pending (dir : bytes) (buf : list entry) : option (list item) :=
    if is_nil dir then Some [] else g_flush dir buf.
  Fixpoint g_loop (es : list entry) (dir : bytes) (buf : list entry) {struct es}
    : option (list item) :=
    match es with
    | [] => g_pending dir buf
    | e :: es' =>
      match split1 c_slash (e_path e) with
      | (_, None) =>
          match g_pending dir buf, g_loop es' [] [] with
          | Some pre, Some r => Some (pre ++ IFile (e_path e) (e_id e) :: r)
          | _, _ => None
          end
      | (d, Some rest) =>
          let ne := mkE (e_id e) rest in
          if is_nil dir then g_loop es' d (buf ++ [ne])
          else if bytes_eqb dir d then g_loop es' dir (buf ++ [ne])
          else match g_flush dir buf, g_loop es' d [ne] with
               | Some pre, Some r => Some (pre ++ r)
               | _, _ => None
               end
      end
    end.
End GLoop.

Fixpoint group (fuel : nat) (es : list entry) : option (list item) :=
  match fuel with
  | O => None
  | S f => g_loop (group f) es [] []
  end.
Definition group_top (es : list entry) : option (list item) := group (S (S (max_depth es))) es.

Definition out_of (o : option (list item)) : option (bytes * list bytes) :=
  match o with
  | None => None
  | Some its => Some (ser its, subsl its)
  end.

(** ** (a) [write_tree] is the serialisation of [group] — no validity needed *)

Lemma wt_loop_g_loop : forall rec grec,
  (forall buf, rec buf = out_of (grec buf)) ->
  forall es dir buf data subs,
  wt_loop rec es dir buf data subs =
  match g_loop grec es dir buf with
  | None => None
  | Some its => Some (data ++ ser its, subs ++ subsl its)
  end.
Proof.
  intros rec grec Hrec.
  assert (Hflush : forall dir buf data subs,
    wt_flush rec dir buf data subs =
    match g_flush grec dir buf with
    | None => None
    | Some its => Some (data ++ ser its, subs ++ subsl its)
    end).
  { intros dir buf data subs. unfold wt_flush, g_flush. rewrite Hrec.
    destruct (grec buf) as [sub|]; simpl; [|reflexivity].
    unfold ser, subsl. simpl. rewrite !app_nil_r. reflexivity. }
  assert (Hpend : forall dir buf data subs,
    (if is_nil dir then Some (data, subs) else wt_flush rec dir buf data subs) =
    match g_pending grec dir buf with
    | None => None
    | Some its => Some (data ++ ser its, subs ++ subsl its)
    end).
  { intros dir buf data subs. unfold g_pending. destruct (is_nil dir).
    - simpl. rewrite !app_nil_r. reflexivity.
    - apply Hflush. }
  induction es as [|e es IH]; intros dir buf data subs.
  - simpl. apply Hpend.
  - simpl. destruct (split1 c_slash (e_path e)) as [d [rest|]].
    + destruct (is_nil dir); [apply IH|].
      destruct (bytes_eqb dir d); [apply IH|].
      rewrite Hflush. destruct (g_flush grec dir buf) as [pre|]; [|reflexivity].
      rewrite IH. destruct (g_loop grec es d _) as [r|]; [|reflexivity].
      rewrite ser_app, subsl_app, !app_assoc. reflexivity.
    + rewrite Hpend. destruct (g_pending grec dir buf) as [pre|]; [|reflexivity].
      rewrite IH. destruct (g_loop grec es [] []) as [r|]; [|reflexivity].
      rewrite ser_app, subsl_app.
      change (ser (IFile (e_path e) (e_id e) :: r))
        with (tree_line mode_file (e_path e) (e_id e) ++ ser r).
      change (subsl (IFile (e_path e) (e_id e) :: r)) with (subsl r).
      rewrite <- !app_assoc. reflexivity.
Qed.

Theorem write_tree_group : forall fuel es, write_tree fuel es = out_of (group fuel es).
Proof.
  induction fuel as [|f IH]; intros es.
  - reflexivity.
  - rewrite write_tree_S. rewrite (wt_loop_g_loop _ (group f) IH). simpl.
    destruct (g_loop (group f) es [] []); reflexivity.
Qed.

Corollary write_tree_top_group : forall es, write_tree_top es = out_of (group_top es).
Proof. intros. apply write_tree_group. Qed.

(* ================================================================== *)
(** * 1. Fuel: the recursion terminates (no validity needed) *)

Definition shallow (n : nat) (e : entry) : Prop := path_depth (e_path e) < n.

Lemma max_depth_shallow : forall es n, max_depth es < n -> Forall (shallow n) es.
Proof.
  induction es as [|e es IH]; intros n H; constructor; simpl in H.
  - unfold shallow. fold (max_depth es) in H. lia.
  - apply IH. fold (max_depth es) in H. lia.
Qed.

Lemma g_loop_some : forall f rec,
  (forall buf, buf <> [] -> Forall (shallow f) buf -> exists sub, rec buf = Some sub) ->
  forall es dir buf,
  Forall (shallow (S f)) es -> Forall (shallow f) buf ->
  (dir <> [] -> buf <> []) ->
  exists its, g_loop rec es dir buf = Some its.
Proof.
  intros f rec Hrec.
  assert (Hflush : forall dir buf, buf <> [] -> Forall (shallow f) buf ->
            exists its, g_flush rec dir buf = Some its).
  { intros dir buf Hne Hb. unfold g_flush. destruct (Hrec buf Hne Hb) as [sub ->]. eauto. }
  assert (Hpend : forall dir buf, (dir <> [] -> buf <> []) -> Forall (shallow f) buf ->
            exists its, g_pending rec dir buf = Some its).
  { intros dir buf Hne Hb. unfold g_pending. destruct dir as [|c dir]; simpl; [eauto|].
    apply Hflush; [|exact Hb]. apply Hne. discriminate. }
  induction es as [|e es IH]; intros dir buf Hes Hbuf Hinv.
  - simpl. apply Hpend; assumption.
  - inversion Hes as [|? ? He Hes']; subst. simpl.
    destruct (split1 c_slash (e_path e)) as [d [rest|]] eqn:E.
    + assert (Hne : shallow f (mkE (e_id e) rest)).
      { unfold shallow in *. simpl. rewrite (tf_path_depth_split _ _ _ E) in He. lia. }
      assert (Hb' : Forall (shallow f) (buf ++ [mkE (e_id e) rest])).
      { apply Forall_app. split; [exact Hbuf|]. constructor; [exact Hne|constructor]. }
      assert (Hnn : forall d' : bytes, d' <> [] -> buf ++ [mkE (e_id e) rest] <> []).
      { intros _ _ X. apply app_eq_nil in X. destruct X as [_ X]. discriminate. }
      destruct (is_nil dir) eqn:Hn.
      * apply IH; [exact Hes'|exact Hb'|apply Hnn].
      * assert (Hd : dir <> []) by (intros ->; discriminate).
        destruct (bytes_eqb dir d).
        -- apply IH; [exact Hes'|exact Hb'|apply Hnn].
        -- destruct (Hflush dir buf) as [pre ->]; [apply Hinv; exact Hd|exact Hbuf|].
           destruct (IH d [mkE (e_id e) rest]) as [r ->];
             [exact Hes'|constructor; [exact Hne|constructor]|intros _; discriminate|].
           eauto.
    + destruct (Hpend dir buf Hinv Hbuf) as [pre ->].
      destruct (IH [] []) as [r ->]; [exact Hes'|constructor|intros X; contradiction|].
      eauto.
Qed.

Lemma group_fuel_shallow : forall fuel es,
  0 < fuel -> Forall (shallow fuel) es -> exists its, group fuel es = Some its.
Proof.
  induction fuel as [|f IH]; intros es Hpos Hes; [lia|].
  simpl. apply (g_loop_some f).
  - intros buf Hne Hb. apply IH; [|exact Hb].
    destruct buf as [|e buf]; [contradiction|]. inversion Hb; subst. unfold shallow in *. lia.
  - exact Hes.
  - constructor.
  - intros X; contradiction.
Qed.

Lemma group_fuel : forall fuel es, max_depth es < fuel -> exists its, group fuel es = Some its.
Proof.
  intros fuel es H. apply group_fuel_shallow; [lia|]. apply max_depth_shallow. exact H.
Qed.

Theorem write_tree_fuel_gen : forall fuel es, max_depth es < fuel -> write_tree fuel es <> None.
Proof.
  intros fuel es H. rewrite write_tree_group.
  destruct (group_fuel fuel es H) as [its ->]. discriminate.
Qed.

Theorem write_tree_fuel_any : forall es, exists r, write_tree_top es = Some r.
Proof.
  intros es. unfold write_tree_top. rewrite write_tree_group.
  destruct (group_fuel (S (S (max_depth es))) es) as [its ->]; [lia|]. simpl. eauto.
Qed.

(* ================================================================== *)
(** * Validity of staged entries; well-formed items *)

(* a path component: any byte except '/' and NUL; spaces ARE allowed *)
Definition valid_comp (c : bytes) : Prop := c <> [] /\ ~ In c_slash c /\ ~ In c_nul c.
Definition valid_path (p : bytes) : Prop := Forall valid_comp (split_all c_slash p).
(* ids: ANY 20 bytes *)
Definition valid_entry (e : entry) : Prop := length (e_id e) = 20 /\ valid_path (e_path e).

Lemma valid_split_some : forall e d rest,
  valid_entry e -> split1 c_slash (e_path e) = (d, Some rest) ->
  valid_comp d /\ valid_entry (mkE (e_id e) rest) /\ e_path e = d ++ c_slash :: rest.
Proof.
  intros e d rest [Hid Hp] E. unfold valid_path in Hp.
  rewrite tf_split_all_split1, E in Hp. inversion Hp; subst.
  split; [assumption|]. split.
  - split; assumption.
  - apply tf_split1_some_inv in E. apply E.
Qed.

Lemma valid_split_none : forall e d,
  valid_entry e -> split1 c_slash (e_path e) = (d, None) ->
  length (e_id e) = 20 /\ valid_comp (e_path e).
Proof.
  intros e d [Hid Hp] E. unfold valid_path in Hp.
  rewrite tf_split_all_split1, E in Hp. inversion Hp as [|? ? Hc _]; subst.
  apply tf_split1_none_inv in E. destruct E as [-> _].
  split; assumption.
Qed.

Inductive wf_item : item -> Prop :=
| wf_file : forall n id, valid_comp n -> length id = 20 -> wf_item (IFile n id)
| wf_dir : forall n sub, valid_comp n -> sub <> [] -> Forall wf_item sub ->
           wf_item (IDir n sub).

Definition add_prefix (pre : bytes) (e : entry) : entry := mkE (e_id e) (join_path pre (e_path e)).
Definition push (dir : bytes) (e : entry) : entry := mkE (e_id e) (dir ++ c_slash :: e_path e).

Lemma join_path_assoc : forall pre d p,
  d <> [] -> join_path (join_path pre d) p = join_path pre (d ++ c_slash :: p).
Proof.
  intros pre d p Hd. destruct pre as [|c pre]; simpl.
  - destruct d; [contradiction|]. reflexivity.
  - rewrite <- app_assoc. reflexivity.
Qed.

Lemma add_prefix_nil : forall es, map (add_prefix []) es = es.
Proof.
  induction es as [|[id p] es IH]; simpl; [reflexivity|]. rewrite IH. reflexivity.
Qed.

Lemma is_nil_false : forall (A : Type) (l : list A), is_nil l = false -> l <> [].
Proof. intros A l H ->. discriminate. Qed.
Lemma is_nil_true : forall (A : Type) (l : list A), is_nil l = true -> l = [].
Proof. intros A [|x l] H; [reflexivity|discriminate]. Qed.

Section WithFacts.
  (* borrowed from ObjFacts.v / BytesFacts.v — to be discharged by instantiation *)
  Hypothesis H_payload_roundtrip :
    forall k d, (lenN d < 2^63)%N -> parse_payload (payload k d) = Some (k, d).
  Hypothesis H_bytes_eqb_eq : forall a b, bytes_eqb a b = true <-> a = b.

  (** ** (b) flattening the grouping gives the staged entries back *)

  Definition rec_ok (rec : list entry -> option (list item)) : Prop :=
    forall buf its, Forall valid_entry buf -> rec buf = Some its ->
      Forall wf_item its /\ forall pre, flat_items pre its = map (add_prefix pre) buf.

  Definition pend_ok (dir : bytes) (buf : list entry) : Prop :=
    (dir = [] -> buf = []) /\ (dir <> [] -> valid_comp dir /\ buf <> []).

  Lemma g_flush_ok : forall rec, rec_ok rec ->
    forall dir buf its, valid_comp dir -> buf <> [] -> Forall valid_entry buf ->
    g_flush rec dir buf = Some its ->
    Forall wf_item its /\
    forall pre, flat_items pre its = map (add_prefix pre) (map (push dir) buf).
  Proof.
    intros rec Hrec dir buf its Hd Hne Hbuf H. unfold g_flush in H.
    assert (Hd1 : dir <> []) by apply Hd.
    destruct (rec buf) as [sub|] eqn:E; [|discriminate]. inversion H; subst its; clear H.
    destruct (Hrec buf sub Hbuf E) as [Hwf Hflat]. split.
    - constructor; [|constructor]. constructor; try assumption.
      intros ->. specialize (Hflat []). simpl in Hflat.
      destruct buf; [contradiction|discriminate].
    - intros pre. unfold flat_items at 1. simpl. rewrite app_nil_r.
      fold (flat_items (join_path pre dir) sub). rewrite Hflat, map_map.
      apply map_ext. intros [id p]. unfold add_prefix, push. simpl.
      rewrite join_path_assoc; [reflexivity|assumption].
  Qed.

  Lemma g_pending_ok : forall rec, rec_ok rec ->
    forall dir buf its, pend_ok dir buf -> Forall valid_entry buf ->
    g_pending rec dir buf = Some its ->
    Forall wf_item its /\
    forall pre, flat_items pre its = map (add_prefix pre) (map (push dir) buf).
  Proof.
    intros rec Hrec dir buf its [Hp1 Hp2] Hbuf H. unfold g_pending in H.
    destruct (is_nil dir) eqn:Hn.
    - inversion H; subst. apply is_nil_true in Hn. rewrite (Hp1 Hn). split; [constructor|].
      intros pre. reflexivity.
    - apply is_nil_false in Hn. destruct (Hp2 Hn) as [Hc Hne].
      eapply g_flush_ok; eauto.
  Qed.

  Lemma g_loop_ok : forall rec, rec_ok rec ->
    forall es dir buf its,
    Forall valid_entry es -> Forall valid_entry buf -> pend_ok dir buf ->
    g_loop rec es dir buf = Some its ->
    Forall wf_item its /\
    forall pre, flat_items pre its = map (add_prefix pre) (map (push dir) buf ++ es).
  Proof.
    intros rec Hrec. induction es as [|e es IH]; intros dir buf its Hes Hbuf Hp H.
    - simpl in H. rewrite app_nil_r. eapply g_pending_ok; eauto.
    - inversion Hes as [|? ? He Hes']; subst. simpl in H.
      destruct (split1 c_slash (e_path e)) as [d [rest|]] eqn:E.
      + destruct (valid_split_some e d rest He E) as [Hd [Hne Hpath]].
        assert (Hd0 : d <> []) by apply Hd.
        assert (Hpush : push d (mkE (e_id e) rest) = e).
        { unfold push. simpl. rewrite <- Hpath. destruct e; reflexivity. }
        assert (Hb' : Forall valid_entry (buf ++ [mkE (e_id e) rest])).
        { apply Forall_app. split; [exact Hbuf|]. constructor; [exact Hne|constructor]. }
        assert (Hp' : forall b, pend_ok d (b ++ [mkE (e_id e) rest])).
        { intros b. split; [intros X; contradiction|]. intros _. split; [exact Hd|].
          intros X. apply app_eq_nil in X. destruct X as [_ X]. discriminate. }
        destruct (is_nil dir) eqn:Hn.
        * apply is_nil_true in Hn. subst dir. destruct Hp as [Hp1 _].
          rewrite (Hp1 eq_refl) in *.
          destruct (IH d _ its Hes' Hb' (Hp' []) H) as [Hwf Hflat].
          split; [exact Hwf|]. intros pre. rewrite Hflat. cbn [map app]. rewrite Hpush. reflexivity.
        * destruct (bytes_eqb dir d) eqn:Hb.
          -- apply H_bytes_eqb_eq in Hb. subst d.
             destruct (IH dir _ its Hes' Hb' (Hp' buf) H) as [Hwf Hflat].
             split; [exact Hwf|]. intros pre. rewrite Hflat, (map_app (push dir)). cbn [map].
             rewrite Hpush, <- app_assoc. reflexivity.
          -- apply is_nil_false in Hn. destruct Hp as [_ Hp2]. destruct (Hp2 Hn) as [Hc Hbn].
             destruct (g_flush rec dir buf) as [pi|] eqn:Ef; [|discriminate].
             destruct (g_loop rec es d [mkE (e_id e) rest]) as [r|] eqn:El; [|discriminate].
             inversion H; subst its; clear H.
             destruct (g_flush_ok rec Hrec dir buf pi Hc Hbn Hbuf Ef) as [Hwf1 Hfl1].
             destruct (IH d _ r Hes' (Forall_cons _ Hne (Forall_nil _)) (Hp' []) El)
               as [Hwf2 Hfl2].
             split; [apply Forall_app; split; assumption|].
             intros pre. rewrite flat_items_app, Hfl1, Hfl2. cbn [map app].
             rewrite Hpush, (map_app (add_prefix pre)). reflexivity.
      + destruct (valid_split_none e d He E) as [Hid Hvc].
        destruct (g_pending rec dir buf) as [pi|] eqn:Ef; [|discriminate].
        destruct (g_loop rec es [] []) as [r|] eqn:El; [|discriminate].
        inversion H; subst its; clear H.
        destruct (g_pending_ok rec Hrec dir buf pi Hp Hbuf Ef) as [Hwf1 Hfl1].
        assert (Hp0 : pend_ok [] []).
        { split; [reflexivity|]. intros X; contradiction. }
        destruct (IH [] [] r Hes' (Forall_nil _) Hp0 El) as [Hwf2 Hfl2].
        split.
        * apply Forall_app. split; [exact Hwf1|]. constructor; [|exact Hwf2].
          constructor; assumption.
        * intros pre. rewrite flat_items_app, Hfl1, map_app.
          change (flat_items pre (IFile (e_path e) (e_id e) :: r))
            with (mkE (e_id e) (join_path pre (e_path e)) :: flat_items pre r).
          rewrite Hfl2. simpl. destruct e; reflexivity.
  Qed.

  Lemma group_ok : forall fuel, rec_ok (group fuel).
  Proof.
    induction fuel as [|f IH]; intros es its Hes H.
    - discriminate.
    - simpl in H.
      assert (Hp0 : pend_ok [] []).
      { split; [reflexivity|]. intros X; contradiction. }
      exact (g_loop_ok (group f) IH es [] [] its Hes (Forall_nil _) Hp0 H).
  Qed.

  Theorem group_wf : forall fuel es its,
    Forall valid_entry es -> group fuel es = Some its -> Forall wf_item its.
  Proof. intros fuel es its Hes H. exact (proj1 (group_ok fuel es its Hes H)). Qed.

  Theorem group_flat : forall fuel es its,
    Forall valid_entry es -> group fuel es = Some its -> flat_items [] its = es.
  Proof.
    intros fuel es its Hes H. rewrite (proj2 (group_ok fuel es its Hes H) []).
    apply add_prefix_nil.
  Qed.

  (* ================================================================== *)
  (** * (c) reading a realised tree back *)

  (* the store holds every payload of [ds] under its obj_id, and they are small
     enough for the header's size field *)
  Definition Good (st : store) (ds : list bytes) : Prop :=
    forall d, In d ds ->
      st_lookup st (obj_id KTree d) = Some (payload KTree d) /\ (lenN d < 2^63)%N.

  Lemma Good_incl : forall st a b, incl a b -> Good st b -> Good st a.
  Proof. intros st a b Hi Hg d Hd. apply Hg. apply Hi. exact Hd. Qed.

  Lemma get_kind_good : forall st ds d,
    Good st ds -> In d ds -> get_kind st KTree (obj_id KTree d) = Some d.
  Proof.
    intros st ds d Hg Hd. destruct (Hg d Hd) as [Hl Hs].
    unfold get_kind, get_obj. rewrite Hl, (H_payload_roundtrip KTree d Hs).
    change (sha1 (payload KTree d)) with (obj_id KTree d).
    rewrite (proj2 (H_bytes_eqb_eq _ _) eq_refl). reflexivity.
  Qed.

  Definition mode_ok (m : bytes) : Prop := m <> [] /\ ~ In c_sp m /\ ~ In c_nul m.

  Lemma mode_file_ok : mode_ok mode_file.
  Proof.
    unfold mode_ok, mode_file, c_sp, c_nul. repeat split; simpl; intuition discriminate.
  Qed.
  Lemma mode_dir_ok : mode_ok mode_dir.
  Proof.
    unfold mode_ok, mode_dir, c_sp, c_nul. repeat split; simpl; intuition discriminate.
  Qed.

  Lemma tree_line_app : forall m n id rest,
    tree_line m n id ++ rest = m ++ c_sp :: n ++ c_nul :: id ++ rest.
  Proof.
    intros. unfold tree_line. repeat rewrite <- app_assoc. reflexivity.
  Qed.

  Lemma parse_line : forall f m n id rest,
    mode_ok m -> ~ In c_nul n -> length id = 20 ->
    parse_tree_items (S f) (tree_line m n id ++ rest) =
    match parse_tree_items f rest with
    | None => None
    | Some l => Some ((m, n, id) :: l)
    end.
  Proof.
    intros f m n id rest [Hm0 [Hm1 Hm2]] Hn Hid. rewrite tree_line_app.
    change (m ++ c_sp :: n ++ c_nul :: id ++ rest)
      with (m ++ (c_sp :: n) ++ c_nul :: id ++ rest).
    rewrite app_assoc. cbn [parse_tree_items].
    rewrite tf_split1_app_sep.
    2:{ intros X. apply in_app_or in X. destruct X as [X|[X|X]]; [exact (Hm2 X)|discriminate|exact (Hn X)]. }
    destruct m as [|c m]; [contradiction|].
    change ((c :: m) ++ c_sp :: n) with (c :: (m ++ c_sp :: n)) at 1.
    cbv iota. rewrite (tf_split1_app_sep c_sp (c :: m) n Hm1).
    rewrite (tf_firstn_app_len _ 20 id rest Hid), (tf_skipn_app_len _ 20 id rest Hid), Hid.
    reflexivity.
  Qed.

  Lemma spec_line : forall f m n id rest,
    mode_ok m -> ~ In c_nul n -> length id = 20 ->
    spec_items (S f) (tree_line m n id ++ rest) =
    match spec_items f rest with
    | None => None
    | Some l => Some ((m, n, id) :: l)
    end.
  Proof.
    intros f m n id rest [Hm0 [Hm1 Hm2]] Hn Hid. rewrite tree_line_app.
    destruct m as [|c m]; [contradiction|].
    change ((c :: m) ++ c_sp :: n ++ c_nul :: id ++ rest)
      with (c :: (m ++ c_sp :: n ++ c_nul :: id ++ rest)).
    cbn [spec_items].
    change (c :: (m ++ c_sp :: n ++ c_nul :: id ++ rest))
      with ((c :: m) ++ c_sp :: n ++ c_nul :: id ++ rest).
    rewrite (tf_take_until_app c_sp (c :: m) _ Hm1).
    rewrite (tf_take_until_app c_nul n _ Hn).
    rewrite (tf_firstn_app_len _ 20 id rest Hid), (tf_skipn_app_len _ 20 id rest Hid), Hid.
    reflexivity.
  Qed.

  Lemma ser_cons : forall i its, ser (i :: its) = ser_item i ++ ser its.
  Proof. reflexivity. Qed.

  Lemma ser_item_triple : forall i, wf_item i ->
    exists m n id, triple i = (m, n, id) /\ ser_item i = tree_line m n id /\
                   mode_ok m /\ ~ In c_nul n /\ length id = 20.
  Proof.
    intros i Hwf. destruct Hwf as [n id [_ [_ Hn]] Hid | n sub [_ [_ Hn]] Hs Hsub].
    - exists mode_file, n, id.
      split; [reflexivity|]. split; [reflexivity|]. split; [apply mode_file_ok|].
      split; assumption.
    - exists mode_dir, n, (obj_id KTree (ser sub)).
      split; [reflexivity|]. split; [reflexivity|]. split; [apply mode_dir_ok|].
      split; [assumption|]. unfold obj_id. apply sha1_length.
  Qed.

  Lemma parse_items_ser : forall its, Forall wf_item its ->
    forall fuel, length its < fuel -> parse_tree_items fuel (ser its) = Some (map triple its).
  Proof.
    induction its as [|i its IH]; intros Hwf fuel Hf.
    - destruct fuel; [lia|]. reflexivity.
    - inversion Hwf as [|? ? Hi Hwf']; subst. destruct fuel as [|f]; [lia|].
      destruct (ser_item_triple i Hi) as [m [n [id [Ht [Hs [Hm [Hn Hid]]]]]]].
      rewrite ser_cons, Hs, (parse_line f m n id _ Hm Hn Hid).
      rewrite (IH Hwf' f); [|simpl in Hf; lia]. simpl. rewrite Ht. reflexivity.
  Qed.

  Lemma spec_items_ser : forall its, Forall wf_item its ->
    forall fuel, length its < fuel -> spec_items fuel (ser its) = Some (map triple its).
  Proof.
    induction its as [|i its IH]; intros Hwf fuel Hf.
    - destruct fuel; [lia|]. reflexivity.
    - inversion Hwf as [|? ? Hi Hwf']; subst. destruct fuel as [|f]; [lia|].
      destruct (ser_item_triple i Hi) as [m [n [id [Ht [Hs [Hm [Hn Hid]]]]]]].
      rewrite ser_cons, Hs, (spec_line f m n id _ Hm Hn Hid).
      rewrite (IH Hwf' f); [|simpl in Hf; lia]. simpl. rewrite Ht. reflexivity.
  Qed.

  Lemma ser_length : forall its, Forall wf_item its -> length its <= length (ser its).
  Proof.
    induction its as [|i its IH]; intros Hwf; [simpl; lia|].
    inversion Hwf as [|? ? Hi Hwf']; subst.
    destruct (ser_item_triple i Hi) as [m [n [id [_ [Hs [[Hm _] _]]]]]].
    rewrite ser_cons, app_length, Hs. specialize (IH Hwf').
    unfold tree_line. rewrite app_length. destruct m; [contradiction|]. simpl. lia.
  Qed.

  Lemma in_dir_subs : forall m sub its,
    In (IDir m sub) its -> In (ser sub) (subsl its) /\ incl (subsl sub) (subsl its).
  Proof.
    intros m sub its Hin. split.
    - unfold subsl at 1. apply in_flat_map. exists (IDir m sub). split; [exact Hin|].
      rewrite subs_item_dir. apply in_or_app. right. left. reflexivity.
    - intros d Hd. unfold subsl at 1. apply in_flat_map. exists (IDir m sub). split; [exact Hin|].
      rewrite subs_item_dir. apply in_or_app. left. exact Hd.
  Qed.

  Lemma in_dir_wf : forall m sub its,
    Forall wf_item its -> In (IDir m sub) its -> Forall wf_item sub /\ sub <> [] /\ valid_comp m.
  Proof.
    intros m sub its Hwf Hin. rewrite Forall_forall in Hwf. specialize (Hwf _ Hin).
    inversion Hwf; subst. split; [assumption|]. split; assumption.
  Qed.

  Lemma in_dir_depth : forall m sub its n,
    In (IDir m sub) its -> ldepth its < S n -> ldepth sub < n.
  Proof.
    intros m sub its n Hin Hd. apply ldepth_in in Hin. rewrite idepth_dir in Hin. lia.
  Qed.

  (** ** Goit's own reader *)

  Lemma wk_go_ok : forall rec st its,
    (forall m sub, In (IDir m sub) its ->
       get_kind st KTree (obj_id KTree (ser sub)) = Some (ser sub) /\
       rec (ser sub) = Some (map node_of sub)) ->
    wk_go rec st (map triple its) = Some (map node_of its).
  Proof.
    intros rec st. induction its as [|i its IH]; intros H; [reflexivity|].
    cbn [map wk_go]. rewrite IH.
    2:{ intros m sub Hin. apply (H m sub). right. exact Hin. }
    destruct i as [n id | n sub].
    - reflexivity.
    - destruct (H n sub (or_introl eq_refl)) as [Hk Hr].
      cbn [triple]. change (bytes_eqb mode_dir mode_dir) with true. cbv iota.
      rewrite Hk, Hr. reflexivity.
  Qed.

  Theorem walk_items : forall st n its,
    ldepth its < n -> Forall wf_item its -> Good st (subsl its) ->
    walk_tree n st (ser its) = Some (map node_of its).
  Proof.
    intros st. induction n as [|n IH]; intros its Hd Hwf Hg; [lia|].
    rewrite walk_tree_S, (parse_items_ser its Hwf).
    2:{ pose proof (ser_length its Hwf). lia. }
    apply wk_go_ok. intros m sub Hin.
    destruct (in_dir_subs m sub its Hin) as [Hin' Hincl].
    destruct (in_dir_wf m sub its Hwf Hin) as [Hwf' _].
    split.
    - exact (get_kind_good st _ _ Hg Hin').
    - apply IH; [exact (in_dir_depth m sub its n Hin Hd)|exact Hwf'|exact (Good_incl _ _ _ Hincl Hg)].
  Qed.

  Lemma flatten_nodes : forall n its pre,
    ldepth its < n -> Forall wf_item its ->
    flatten pre (map node_of its) = flat_items pre its.
  Proof.
    induction n as [|n IH]; intros its pre Hd Hwf; [lia|].
    assert (Hall : forall i, In i its -> flatten_node pre (node_of i) = flat_item pre i).
    { intros i Hin. destruct i as [m id | m sub].
      - reflexivity.
      - destruct (in_dir_wf m sub its Hwf Hin) as [Hwf' [Hne _]].
        rewrite node_of_dir, flatten_node_eq, flat_item_dir.
        destruct sub as [|x sub]; [contradiction|].
        cbn [map]. change (node_of x :: map node_of sub) with (map node_of (x :: sub)).
        apply (IH (x :: sub) (join_path pre m));
          [exact (in_dir_depth m _ its n Hin Hd)|exact Hwf']. }
    clear Hd Hwf. unfold flatten, flat_items. induction its as [|i its IHl]; [reflexivity|].
    cbn [map flat_map]. rewrite (Hall i (or_introl eq_refl)), IHl; [reflexivity|].
    intros j Hj. apply Hall. right. exact Hj.
  Qed.

  (** ** the independent specification reader *)

  Lemma sp_go_ok : forall rec pre its,
    (forall m sub, In (IDir m sub) its ->
       rec (join_path pre m) (obj_id KTree (ser sub)) = Some (flat_items (join_path pre m) sub)) ->
    sp_go rec pre (map triple its) = Some (flat_items pre its).
  Proof.
    intros rec pre. induction its as [|i its IH]; intros H; [reflexivity|].
    cbn [map sp_go]. rewrite IH.
    2:{ intros m sub Hin. apply H. right. exact Hin. }
    destruct i as [n id | n sub].
    - reflexivity.
    - cbn [triple]. change (bytes_eqb mode_dir mode_dir) with true. cbv iota.
      rewrite (H n sub (or_introl eq_refl)). reflexivity.
  Qed.

  Theorem spec_items_flatten : forall st n its pre,
    ldepth its < n -> Forall wf_item its -> Good st (subsl its ++ [ser its]) ->
    spec_flatten n st pre (obj_id KTree (ser its)) = Some (flat_items pre its).
  Proof.
    intros st. induction n as [|n IH]; intros its pre Hd Hwf Hg; [lia|].
    destruct (Hg (ser its)) as [Hl Hs]; [apply in_or_app; right; left; reflexivity|].
    rewrite spec_flatten_S, Hl, (H_payload_roundtrip KTree _ Hs), (spec_items_ser its Hwf).
    2:{ pose proof (ser_length its Hwf). lia. }
    apply sp_go_ok. intros m sub Hin.
    destruct (in_dir_subs m sub its Hin) as [Hin' Hincl].
    destruct (in_dir_wf m sub its Hwf Hin) as [Hwf' _].
    apply IH; [exact (in_dir_depth m sub its n Hin Hd)|exact Hwf'|].
    intros d Hdd. apply Hg. apply in_or_app. left. apply in_app_or in Hdd.
    destruct Hdd as [Hdd|[<-|[]]]; [apply Hincl; exact Hdd|exact Hin'].
  Qed.

  (* ================================================================== *)
  (** * Main theorems *)

  Lemma write_tree_top_inv : forall es root subs,
    write_tree_top es = Some (root, subs) ->
    exists its, group_top es = Some its /\ root = ser its /\ subs = subsl its.
  Proof.
    intros es root subs H. rewrite write_tree_top_group in H.
    destruct (group_top es) as [its|]; [|discriminate]. simpl in H.
    inversion H; subst. exists its. repeat split.
  Qed.

  (** 1. the Go recursion terminates: the fuel of [write_tree_top] is enough *)
  Theorem write_tree_fuel : forall es,
    Forall valid_entry es -> exists r, write_tree_top es = Some r.
  Proof. intros es _. apply write_tree_fuel_any. Qed.

  (** 2. the independent reader gives back exactly what was staged *)
  Theorem spec_flatten_write_tree : forall es root subs st,
    Forall valid_entry es ->
    write_tree_top es = Some (root, subs) ->
    (forall d, In d (subs ++ [root]) -> st_lookup st (obj_id KTree d) = Some (payload KTree d)) ->
    (forall d, In d (subs ++ [root]) -> (lenN d < 2^63)%N) ->
    exists fuel, spec_flatten fuel st [] (obj_id KTree root) = Some es.
  Proof.
    intros es root subs st Hes Hw Hst Hsz.
    destruct (write_tree_top_inv es root subs Hw) as [its [Hg [-> ->]]].
    exists (S (ldepth its)).
    rewrite (spec_items_flatten st (S (ldepth its)) its []).
    - rewrite (group_flat _ es its Hes Hg). reflexivity.
    - lia.
    - exact (group_wf _ es its Hes Hg).
    - intros d Hd. split; [apply Hst|apply Hsz]; exact Hd.
  Qed.

  (** 3. Goit's own reader + flatten gives back exactly what was staged
      (only the sub-trees need to be in the store: the root is passed as data) *)
  Theorem walk_write_tree_subs : forall es root subs st,
    Forall valid_entry es ->
    write_tree_top es = Some (root, subs) ->
    (forall d, In d subs -> st_lookup st (obj_id KTree d) = Some (payload KTree d)) ->
    (forall d, In d subs -> (lenN d < 2^63)%N) ->
    exists fuel ns, walk_tree fuel st root = Some ns /\ flatten [] ns = es.
  Proof.
    intros es root subs st Hes Hw Hst Hsz.
    destruct (write_tree_top_inv es root subs Hw) as [its [Hg [-> ->]]].
    pose proof (group_wf _ es its Hes Hg) as Hwf.
    exists (S (ldepth its)), (map node_of its). split.
    - apply walk_items; [lia|exact Hwf|].
      intros d Hd. split; [apply Hst|apply Hsz]; exact Hd.
    - rewrite (flatten_nodes (S (ldepth its)) its [] (Nat.lt_succ_diag_r _) Hwf).
      exact (group_flat _ es its Hes Hg).
  Qed.

  Theorem walk_write_tree : forall es root subs st,
    Forall valid_entry es ->
    write_tree_top es = Some (root, subs) ->
    (forall d, In d (subs ++ [root]) -> st_lookup st (obj_id KTree d) = Some (payload KTree d)) ->
    (forall d, In d (subs ++ [root]) -> (lenN d < 2^63)%N) ->
    exists fuel ns, walk_tree fuel st root = Some ns /\ flatten [] ns = es.
  Proof.
    intros es root subs st Hes Hw Hst Hsz.
    apply (walk_write_tree_subs es root subs st Hes Hw).
    - intros d Hd. apply Hst. apply in_or_app. left. exact Hd.
    - intros d Hd. apply Hsz. apply in_or_app. left. exact Hd.
  Qed.

  (** 4. the listing of the top level (cat-file -p) *)
  Definition item_listing (i : item) : bool * bytes * bytes :=
    match i with
    | IFile n id => (false, id, n)
    | IDir n sub => (true, obj_id KTree (ser sub), n)
    end.

  Lemma tree_listing_items : forall its,
    Forall wf_item its -> tree_listing (map node_of its) = map item_listing its.
  Proof.
    intros its Hwf. unfold tree_listing. rewrite map_map. apply map_ext_in.
    intros i Hin. destruct i as [n id | n sub]; [reflexivity|].
    destruct (in_dir_wf n sub its Hwf Hin) as [_ [Hne _]].
    rewrite node_of_dir. unfold is_leaf. simpl. destruct sub; [contradiction|reflexivity].
  Qed.

  Theorem tree_listing_write_tree : forall es root subs st,
    Forall valid_entry es ->
    write_tree_top es = Some (root, subs) ->
    (forall d, In d subs -> st_lookup st (obj_id KTree d) = Some (payload KTree d)) ->
    (forall d, In d subs -> (lenN d < 2^63)%N) ->
    exists fuel ns its,
      group_top es = Some its /\
      walk_tree fuel st root = Some ns /\
      tree_listing ns = map item_listing its.
  Proof.
    intros es root subs st Hes Hw Hst Hsz.
    destruct (write_tree_top_inv es root subs Hw) as [its [Hg [-> ->]]].
    pose proof (group_wf _ es its Hes Hg) as Hwf.
    exists (S (ldepth its)), (map node_of its), its. split; [exact Hg|]. split.
    - apply walk_items; [lia|exact Hwf|].
      intros d Hd. split; [apply Hst|apply Hsz]; exact Hd.
    - apply tree_listing_items. exact Hwf.
  Qed.

  (** 5. fuel monotonicity of the two readers *)
  Lemma wk_go_mono : forall (rec1 rec2 : bytes -> option (list node)) st,
    (forall d ns, rec1 d = Some ns -> rec2 d = Some ns) ->
    forall items ns, wk_go rec1 st items = Some ns -> wk_go rec2 st items = Some ns.
  Proof.
    intros rec1 rec2 st Hrec. induction items as [|[[mode name] id] items IH]; intros ns H.
    - exact H.
    - cbn [wk_go] in *.
      destruct (wk_go rec1 st items) as [ns1|] eqn:E1.
      + rewrite (IH ns1 eq_refl). destruct (bytes_eqb mode mode_dir); [|exact H].
        destruct (get_kind st KTree id) as [d|]; [|discriminate].
        destruct (rec1 d) as [ch|] eqn:E2; [|discriminate].
        rewrite (Hrec d ch E2). exact H.
      + destruct (bytes_eqb mode mode_dir); [|discriminate].
        destruct (get_kind st KTree id) as [d|]; [|discriminate].
        destruct (rec1 d); discriminate.
  Qed.

  Theorem walk_tree_mono : forall fuel st d ns,
    walk_tree fuel st d = Some ns -> walk_tree (S fuel) st d = Some ns.
  Proof.
    induction fuel as [|f IH]; intros st d ns H; [discriminate|].
    rewrite walk_tree_S in *.
    destruct (parse_tree_items (S (length d)) d) as [items|]; [|discriminate].
    apply (wk_go_mono (walk_tree f st) (walk_tree (S f) st) st (IH st)). exact H.
  Qed.

  Corollary walk_tree_mono_le : forall fuel fuel' st d ns,
    fuel <= fuel' -> walk_tree fuel st d = Some ns -> walk_tree fuel' st d = Some ns.
  Proof.
    intros fuel fuel' st d ns Hle H. induction Hle; [exact H|].
    apply walk_tree_mono. exact IHHle.
  Qed.

  Lemma sp_go_mono : forall (rec1 rec2 : bytes -> bytes -> option (list entry)) pre,
    (forall p i l, rec1 p i = Some l -> rec2 p i = Some l) ->
    forall items l, sp_go rec1 pre items = Some l -> sp_go rec2 pre items = Some l.
  Proof.
    intros rec1 rec2 pre Hrec. induction items as [|[[mode name] cid] items IH]; intros l H.
    - exact H.
    - cbn [sp_go] in *.
      destruct (sp_go rec1 pre items) as [l1|] eqn:E1.
      + rewrite (IH l1 eq_refl). destruct (bytes_eqb mode mode_dir); [|exact H].
        destruct (rec1 (join_path pre name) cid) as [a|] eqn:E2; [|discriminate].
        rewrite (Hrec _ _ a E2). exact H.
      + destruct (bytes_eqb mode mode_dir); [|discriminate].
        destruct (rec1 (join_path pre name) cid); discriminate.
  Qed.

  Theorem spec_flatten_mono : forall fuel st pre id l,
    spec_flatten fuel st pre id = Some l -> spec_flatten (S fuel) st pre id = Some l.
  Proof.
    induction fuel as [|f IH]; intros st pre id l H; [discriminate|].
    rewrite spec_flatten_S in *.
    destruct (st_lookup st id) as [p|]; [|discriminate].
    destruct (parse_payload p) as [[[] data]|]; try discriminate.
    destruct (spec_items (S (length data)) data) as [items|]; [|discriminate].
    apply (sp_go_mono (spec_flatten f st) (spec_flatten (S f) st) pre (IH st)). exact H.
  Qed.

  Corollary spec_flatten_mono_le : forall fuel fuel' st pre id l,
    fuel <= fuel' -> spec_flatten fuel st pre id = Some l -> spec_flatten fuel' st pre id = Some l.
  Proof.
    intros fuel fuel' st pre id l Hle H. induction Hle; [exact H|].
    apply spec_flatten_mono. exact IHHle.
  Qed.

  (* ================================================================== *)
  (** * What the top level of [group] looks like (reading of theorem 4) *)

  Lemma flat_items_prefix : forall n its pre,
    ldepth its < n -> Forall wf_item its ->
    flat_items pre its = map (add_prefix pre) (flat_items [] its).
  Proof.
    induction n as [|n IH]; intros its pre Hd Hwf; [lia|].
    assert (Hall : forall i, In i its ->
              flat_item pre i = map (add_prefix pre) (flat_item [] i)).
    { intros i Hin. destruct i as [m id | m sub]; [reflexivity|].
      destruct (in_dir_wf m sub its Hwf Hin) as [Hwf' [Hne Hvc]].
      assert (Hm : m <> []) by apply Hvc.
      pose proof (in_dir_depth m sub its n Hin Hd) as Hd'.
      rewrite !flat_item_dir.
      rewrite (IH sub (join_path pre m) Hd' Hwf'), (IH sub (join_path [] m) Hd' Hwf').
      rewrite map_map. apply map_ext. intros [id p]. unfold add_prefix. cbn [e_id e_path].
      change (join_path [] m) with m.
      rewrite (join_path_assoc pre m p Hm). destruct m; [contradiction|reflexivity]. }
    clear Hd Hwf. unfold flat_items. induction its as [|i its IHl]; [reflexivity|].
    cbn [flat_map]. rewrite map_app, (Hall i (or_introl eq_refl)), IHl; [reflexivity|].
    intros j Hj. apply Hall. right. exact Hj.
  Qed.

  (* the entries under a directory item all start with "<name>/" *)
  Lemma flat_item_dir_push : forall m sub,
    wf_item (IDir m sub) ->
    flat_item [] (IDir m sub) = map (push m) (flat_items [] sub).
  Proof.
    intros m sub Hwf. inversion Hwf as [|? ? Hvc Hne Hsub]; subst.
    rewrite flat_item_dir.
    rewrite (flat_items_prefix (S (ldepth sub)) sub _ (Nat.lt_succ_diag_r _) Hsub).
    change (join_path [] m) with m. apply map_ext. intros [id p].
    unfold add_prefix, push. cbn [e_id e_path].
    destruct m; [destruct Hvc as [X _]; contradiction|reflexivity].
  Qed.

  (* no two adjacent directory items carry the same name: the runs are maximal *)
  Fixpoint adj_ok (its : list item) : Prop :=
    match its with
    | [] => True
    | i :: r =>
        match i, r with
        | IDir a _, IDir b _ :: _ => a <> b
        | _, _ => True
        end /\ adj_ok r
    end.

  Lemma g_loop_adj : forall rec es dir buf its,
    Forall valid_entry es -> g_loop rec es dir buf = Some its ->
    adj_ok its /\ (dir <> [] -> exists sub r, its = IDir dir sub :: r).
  Proof.
    intros rec. induction es as [|e es IH]; intros dir buf its Hes H.
    - simpl in H. unfold g_pending, g_flush in H. destruct (is_nil dir) eqn:Hn.
      + inversion H; subst. apply is_nil_true in Hn. split; [exact I|]. intros X; contradiction.
      + destruct (rec buf) as [sub|]; [|discriminate]. inversion H; subst.
        split; [split; exact I|]. intros _. eexists _, _. reflexivity.
    - inversion Hes as [|? ? He Hes']; subst. simpl in H.
      destruct (split1 c_slash (e_path e)) as [d [rest|]] eqn:E.
      + destruct (valid_split_some e d rest He E) as [[Hd0 _] _].
        destruct (is_nil dir) eqn:Hn.
        * apply is_nil_true in Hn. destruct (IH _ _ _ Hes' H) as [Ha _].
          split; [exact Ha|]. intros X; contradiction.
        * destruct (bytes_eqb dir d) eqn:Hb.
          -- exact (IH _ _ _ Hes' H).
          -- unfold g_flush in H. destruct (rec buf) as [sub|]; [|discriminate].
             destruct (g_loop rec es d _) as [r|] eqn:El; [|discriminate].
             inversion H; subst its; clear H.
             destruct (IH _ _ _ Hes' El) as [Ha Hh]. destruct (Hh Hd0) as [sub' [r' ->]].
             split; [|intros _; eexists _, _; reflexivity].
             cbn [app adj_ok]. split; [|exact Ha].
             intros X. subst d. rewrite (proj2 (H_bytes_eqb_eq dir dir) eq_refl) in Hb.
             discriminate.
      + destruct (g_pending rec dir buf) as [pi|] eqn:Ef; [|discriminate].
        destruct (g_loop rec es [] []) as [r|] eqn:El; [|discriminate].
        inversion H; subst its; clear H.
        destruct (IH _ _ _ Hes' El) as [Ha _].
        unfold g_pending, g_flush in Ef. destruct (is_nil dir) eqn:Hn.
        * inversion Ef; subst. apply is_nil_true in Hn.
          split; [split; [exact I|exact Ha]|]. intros X; contradiction.
        * destruct (rec buf) as [sub|]; [|discriminate]. inversion Ef; subst.
          split; [|intros _; eexists _, _; reflexivity].
          cbn [app adj_ok]. split; [exact I|]. split; [exact I|exact Ha].
  Qed.

  Definition top_item_ok (i : item) : Prop :=
    match i with
    | IFile n id => valid_comp n /\ length id = 20 /\ flat_item [] i = [mkE id n]
    | IDir n sub => valid_comp n /\ flat_items [] sub <> [] /\
                    flat_item [] i = map (push n) (flat_items [] sub)
    end.

  (* [group] cuts [es] into consecutive segments: one per file without '/', one per
     maximal run of entries with the same first component *)
  Theorem group_shape : forall fuel es its,
    Forall valid_entry es -> group fuel es = Some its ->
    flat_items [] its = es /\ adj_ok its /\ Forall top_item_ok its.
  Proof.
    intros fuel es its Hes H. split; [exact (group_flat fuel es its Hes H)|]. split.
    - destruct fuel; [discriminate|]. simpl in H. exact (proj1 (g_loop_adj _ _ _ _ _ Hes H)).
    - pose proof (group_wf fuel es its Hes H) as Hwf.
      rewrite Forall_forall in *. intros i Hin. specialize (Hwf i Hin).
      destruct i as [n id | n sub].
      + inversion Hwf; subst. split; [assumption|]. split; [assumption|reflexivity].
      + pose proof (flat_item_dir_push n sub Hwf) as Hp.
        inversion Hwf as [|? ? Hvc Hne Hsub]; subst.
        split; [exact Hvc|]. split; [|exact Hp].
        clear Hp Hwf. destruct sub as [|x sub]; [contradiction|].
        assert (Hx : forall j, wf_item j -> flat_item [] j <> []).
        { clear. intros j. remember (idepth j) as k eqn:Hk. revert j Hk.
          induction k as [k IHk] using lt_wf_ind. intros j Hk Hj.
          destruct Hj as [m id _ _ | m sub _ Hne Hsub]; [discriminate|].
          destruct sub as [|y sub]; [contradiction|]. inversion Hsub; subst.
          rewrite flat_item_dir. unfold flat_items. cbn [flat_map].
          intros X. apply app_eq_nil in X. destruct X as [X _].
          assert (Hy : wf_item y) by assumption.
          pose proof (flat_items_prefix (S (idepth y)) [y] (join_path [] m)) as Hpre.
          unfold flat_items in Hpre. cbn [flat_map] in Hpre. rewrite !app_nil_r in Hpre.
          rewrite Hpre in X.
          - apply map_eq_nil in X. revert X.
            apply (IHk (idepth y)); [|reflexivity|exact Hy].
            rewrite idepth_dir. simpl. lia.
          - simpl. lia.
          - constructor; [exact Hy|constructor]. }
        inversion Hsub; subst. unfold flat_items. cbn [flat_map].
        intros X. apply app_eq_nil in X. destruct X as [X _]. revert X. apply Hx. assumption.
  Qed.

  (* ================================================================== *)
  (** * A uniform fuel: the number of stored objects is enough (the fuel Repo.v uses) *)

  Lemma st_lookup_in : forall st k v, st_lookup st k = Some v -> In k (map fst st).
  Proof.
    induction st as [|[k0 v0] st IH]; intros k v H; simpl in *; [discriminate|].
    destruct (bytes_eqb k0 k) eqn:E.
    - left. apply H_bytes_eqb_eq. exact E.
    - right. exact (IH k v H).
  Qed.

  Lemma good_id_inj : forall st ds a b,
    Good st ds -> In a ds -> In b ds -> obj_id KTree a = obj_id KTree b -> a = b.
  Proof.
    intros st ds a b Hg Ha Hb Hid.
    destruct (Hg a Ha) as [La Sa]. destruct (Hg b Hb) as [Lb Sb].
    rewrite Hid, Lb in La.
    assert (Hp : payload KTree b = payload KTree a) by congruence.
    pose proof (H_payload_roundtrip KTree a Sa) as Pa.
    rewrite <- Hp, (H_payload_roundtrip KTree b Sb) in Pa. congruence.
  Qed.

  Lemma triple_eq_depth : forall a b,
    (forall m s m' s', In (IDir m s) a -> In (IDir m' s') b ->
       obj_id KTree (ser s) = obj_id KTree (ser s') -> ldepth s = ldepth s') ->
    map triple a = map triple b -> ldepth a = ldepth b.
  Proof.
    induction a as [|x a IH]; intros b Hsub H; destruct b as [|y b]; try discriminate.
    - reflexivity.
    - cbn [map] in H. injection H as Ht Hr.
      assert (Hxy : idepth x = idepth y).
      { destruct x as [n id | n s]; destruct y as [n' id' | n' s']; cbn [triple] in Ht.
        - reflexivity.
        - unfold mode_file, mode_dir in Ht. discriminate Ht.
        - unfold mode_file, mode_dir in Ht. discriminate Ht.
        - assert (Hid : obj_id KTree (ser s) = obj_id KTree (ser s')) by congruence.
          rewrite !idepth_dir. f_equal.
          apply (Hsub n s n' s'); [left; reflexivity|left; reflexivity|exact Hid]. }
      change (Nat.max (idepth x) (ldepth a) = Nat.max (idepth y) (ldepth b)).
      rewrite Hxy, (IH b); [reflexivity| |exact Hr].
      intros m s m' s' Hi Hj. apply (Hsub m s m' s'); right; assumption.
  Qed.

  Lemma ser_eq_depth : forall st ds n a b,
    Good st ds -> ldepth a < n -> Forall wf_item a -> Forall wf_item b ->
    incl (subsl a) ds -> incl (subsl b) ds -> ser a = ser b -> ldepth a = ldepth b.
  Proof.
    intros st ds. induction n as [|n IH]; intros a b Hg Hd Hwa Hwb Hia Hib Hs; [lia|].
    apply triple_eq_depth.
    - intros m s m' s' Hi Hj Hid.
      destruct (in_dir_subs m s a Hi) as [Hin1 Hinc1].
      destruct (in_dir_subs m' s' b Hj) as [Hin2 Hinc2].
      destruct (in_dir_wf m s a Hwa Hi) as [Hws _].
      destruct (in_dir_wf m' s' b Hwb Hj) as [Hws' _].
      apply (IH s s' Hg); try assumption.
      + exact (in_dir_depth m s a n Hi Hd).
      + intros d X. apply Hia, Hinc1, X.
      + intros d X. apply Hib, Hinc2, X.
      + apply (good_id_inj st ds _ _ Hg); [apply Hia, Hin1|apply Hib, Hin2|exact Hid].
    - assert (La : length a < S (length a + length b)) by lia.
      assert (Lb : length b < S (length a + length b)) by lia.
      pose proof (parse_items_ser a Hwa _ La) as Pa.
      pose proof (parse_items_ser b Hwb _ Lb) as Pb.
      rewrite Hs, Pb in Pa. congruence.
  Qed.

  Lemma ldepth_attained : forall its k,
    ldepth its = S k -> exists m sub, In (IDir m sub) its /\ ldepth sub = k.
  Proof.
    induction its as [|x its IH]; intros k H; [discriminate|].
    change (Nat.max (idepth x) (ldepth its) = S k) in H.
    destruct (Nat.max_spec (idepth x) (ldepth its)) as [[_ Hm]|[_ Hm]]; rewrite Hm in H.
    - destruct (IH k H) as [m [sub [Hin Hd]]]. exists m, sub. split; [right; exact Hin|exact Hd].
    - destruct x as [n id | n sub]; [discriminate|]. rewrite idepth_dir in H.
      exists n, sub. split; [left; reflexivity|]. lia.
  Qed.

  (* a chain of nested sub-trees of strictly decreasing depth *)
  Lemma depth_chain : forall n its,
    ldepth its = n -> Forall wf_item its ->
    exists ts : list (list item),
      length ts = n /\
      Forall (fun t => Forall wf_item t /\ In (ser t) (subsl its) /\
                       incl (subsl t) (subsl its) /\ ldepth t < n) ts /\
      NoDup (map ldepth ts).
  Proof.
    induction n as [|n IH]; intros its Hd Hwf.
    - exists []. split; [reflexivity|]. split; constructor.
    - destruct (ldepth_attained its n Hd) as [m [sub [Hin Hds]]].
      destruct (in_dir_wf m sub its Hwf Hin) as [Hws _].
      destruct (in_dir_subs m sub its Hin) as [Hin' Hincl].
      destruct (IH sub Hds Hws) as [ts [Hl [Hall Hnd]]].
      exists (sub :: ts). split; [simpl; lia|]. split.
      + constructor.
        * split; [exact Hws|]. split; [exact Hin'|]. split; [exact Hincl|lia].
        * rewrite Forall_forall in *. intros t Ht. destruct (Hall t Ht) as [H1 [H2 [H3 H4]]].
          split; [exact H1|]. split; [apply Hincl, H2|]. split; [|lia].
          intros d X. apply Hincl, H3, X.
      + cbn [map]. constructor; [|exact Hnd].
        intros X. apply in_map_iff in X. destruct X as [t [Ht Hint]].
        rewrite Forall_forall in Hall. destruct (Hall t Hint) as [_ [_ [_ H4]]]. lia.
  Qed.

  Lemma NoDup_map_transfer : forall (A B C : Type) (f : A -> B) (g : A -> C) l,
    (forall x y, In x l -> In y l -> f x = f y -> g x = g y) ->
    NoDup (map g l) -> NoDup (map f l).
  Proof.
    intros A B C f g. induction l as [|x l IH]; intros Hfg Hnd; [constructor|].
    cbn [map] in *. inversion Hnd as [|? ? Hx Hnd']; subst. constructor.
    - intros X. apply in_map_iff in X. destruct X as [y [Hy Hin]].
      apply Hx. apply in_map_iff. exists y. split; [|exact Hin].
      apply Hfg; [right; exact Hin|left; reflexivity|exact Hy].
    - apply IH; [|exact Hnd']. intros a b Ha Hb. apply Hfg; right; assumption.
  Qed.

  Theorem depth_le_store : forall st its,
    Forall wf_item its -> Good st (subsl its) -> ldepth its <= length st.
  Proof.
    intros st its Hwf Hg.
    destruct (depth_chain (ldepth its) its eq_refl Hwf) as [ts [Hl [Hall Hnd]]].
    rewrite Forall_forall in Hall.
    set (f := fun t : list item => obj_id KTree (ser t)).
    assert (Hnd' : NoDup (map f ts)).
    { apply (NoDup_map_transfer _ _ _ f ldepth); [|exact Hnd].
      intros x y Hx Hy Hxy. destruct (Hall x Hx) as [X1 [X2 [X3 X4]]].
      destruct (Hall y Hy) as [Y1 [Y2 [Y3 _]]].
      apply (ser_eq_depth st (subsl its) (S (ldepth x)) x y Hg); try assumption; [lia|].
      exact (good_id_inj st _ _ _ Hg X2 Y2 Hxy). }
    assert (Hincl : incl (map f ts) (map fst st)).
    { intros id X. apply in_map_iff in X. destruct X as [t [<- Ht]].
      destruct (Hall t Ht) as [_ [X2 _]]. destruct (Hg _ X2) as [Hlk _].
      exact (st_lookup_in st _ _ Hlk). }
    pose proof (NoDup_incl_length Hnd' Hincl) as Hlen.
    rewrite !map_length in Hlen. lia.
  Qed.

  (** 2'/3'. the same two theorems with the fuel Repo.v actually passes *)
  Theorem spec_flatten_write_tree_store_fuel : forall es root subs st,
    Forall valid_entry es ->
    write_tree_top es = Some (root, subs) ->
    (forall d, In d (subs ++ [root]) -> st_lookup st (obj_id KTree d) = Some (payload KTree d)) ->
    (forall d, In d (subs ++ [root]) -> (lenN d < 2^63)%N) ->
    spec_flatten (S (length st)) st [] (obj_id KTree root) = Some es.
  Proof.
    intros es root subs st Hes Hw Hst Hsz.
    destruct (write_tree_top_inv es root subs Hw) as [its [Hg [-> ->]]].
    pose proof (group_wf _ es its Hes Hg) as Hwf.
    assert (HG : Good st (subsl its ++ [ser its])).
    { intros d Hd. split; [apply Hst|apply Hsz]; exact Hd. }
    assert (Hdep : ldepth its <= length st).
    { apply depth_le_store; [exact Hwf|]. apply (Good_incl st _ _ (incl_appl _ (incl_refl _)) HG). }
    rewrite (spec_items_flatten st (S (length st)) its []); [|lia|exact Hwf|exact HG].
    rewrite (group_flat _ es its Hes Hg). reflexivity.
  Qed.

  Theorem walk_write_tree_store_fuel : forall es root subs st,
    Forall valid_entry es ->
    write_tree_top es = Some (root, subs) ->
    (forall d, In d subs -> st_lookup st (obj_id KTree d) = Some (payload KTree d)) ->
    (forall d, In d subs -> (lenN d < 2^63)%N) ->
    exists ns, walk_tree (S (length st)) st root = Some ns /\ flatten [] ns = es /\
               exists its, group_top es = Some its /\ tree_listing ns = map item_listing its.
  Proof.
    intros es root subs st Hes Hw Hst Hsz.
    destruct (write_tree_top_inv es root subs Hw) as [its [Hg [-> ->]]].
    pose proof (group_wf _ es its Hes Hg) as Hwf.
    assert (HG : Good st (subsl its)).
    { intros d Hd. split; [apply Hst|apply Hsz]; exact Hd. }
    pose proof (depth_le_store st its Hwf HG) as Hdep.
    exists (map node_of its). split; [apply walk_items; [lia|exact Hwf|exact HG]|]. split.
    - rewrite (flatten_nodes (S (ldepth its)) its [] (Nat.lt_succ_diag_r _) Hwf).
      exact (group_flat _ es its Hes Hg).
    - exists its. split; [exact Hg|]. apply tree_listing_items. exact Hwf.
  Qed.

End WithFacts.

(* ================================================================== *)
(** * 6. Non-vacuity *)

From Coq Require Import Strings.String.

Ltac tf_valid :=
  repeat (first [ apply Forall_cons | apply Forall_nil | split ]);
  try reflexivity;
  try (let X := fresh in intro X; discriminate X);
  try (unfold c_slash, c_nul; simpl; intuition discriminate).

(* names with a space, a dash, dots, parentheses, a non-ASCII byte; nested
   directories; ids made of 0x00 / 0x20 / 0x0a bytes *)
Definition ex_id0 : bytes := repeat x00 20.
Definition ex_id1 : bytes := repeat x20 20.
Definition ex_id2 : bytes := repeat x0a 20.
Definition ex_id3 : bytes := repeat x00 10 ++ repeat x20 10.

Definition ex_entries : list entry :=
  [ mkE ex_id0 (str "a b"%string);
    mkE ex_id1 (str "d-x"%string);
    mkE ex_id2 (str "d/p/q"%string);
    mkE ex_id3 (str "d/p (1).txt"%string);
    mkE ex_id0 (str "d/"%string ++ [xc3; xa9] ++ str " .z"%string) ].

Example ex_entries_valid : Forall valid_entry ex_entries.
Proof. unfold ex_entries, valid_entry, valid_path. simpl. tf_valid. Qed.

(* an unsorted list with a split directory and a file/directory clash *)
Definition ex_unsorted : list entry :=
  [ mkE ex_id0 (str "d/x"%string); mkE ex_id1 (str "b"%string); mkE ex_id2 (str "d/y"%string); mkE ex_id3 (str "d"%string) ].

Example ex_unsorted_valid : Forall valid_entry ex_unsorted.
Proof. unfold ex_unsorted, valid_entry, valid_path. simpl. tf_valid. Qed.

(* the store Goit builds for a list: every sub-tree and the root under its id *)
Definition ex_store (es : list entry) : store :=
  match write_tree_top es with
  | None => []
  | Some (root, subs) =>
      fold_left (fun st d => st_set st (obj_id KTree d) (payload KTree d)) (subs ++ [root]) []
  end.
Definition ex_root (es : list entry) : bytes :=
  match write_tree_top es with None => [] | Some (root, _) => root end.

Example ex_unsorted_spec :
  spec_flatten 3 (ex_store ex_unsorted) [] (obj_id KTree (ex_root ex_unsorted)) = Some ex_unsorted.
Proof. vm_compute. reflexivity. Qed.

Example ex_unsorted_walk :
  match walk_tree 3 (ex_store ex_unsorted) (ex_root ex_unsorted) with
  | Some ns => flatten [] ns = ex_unsorted
  | None => False
  end.
Proof. vm_compute. reflexivity. Qed.

Example ex_entries_spec :
  spec_flatten 4 (ex_store ex_entries) [] (obj_id KTree (ex_root ex_entries)) = Some ex_entries.
Proof. vm_compute. reflexivity. Qed.

Example ex_entries_listing :
  match walk_tree 4 (ex_store ex_entries) (ex_root ex_entries) with
  | Some ns => map (fun x => (fst (fst x), snd x)) (tree_listing ns)
               = [(false, str "a b"%string); (false, str "d-x"%string); (true, str "d"%string)]
  | None => False
  end.
Proof. vm_compute. reflexivity. Qed.

Print Assumptions write_tree_group.
Print Assumptions write_tree_fuel_gen.
Print Assumptions write_tree_fuel.
Print Assumptions spec_flatten_write_tree.
Print Assumptions walk_write_tree.
Print Assumptions tree_listing_write_tree.
Print Assumptions group_shape.
Print Assumptions depth_le_store.
Print Assumptions spec_flatten_write_tree_store_fuel.
Print Assumptions walk_write_tree_store_fuel.
Print Assumptions walk_tree_mono.
Print Assumptions spec_flatten_mono.
