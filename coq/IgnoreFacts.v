(* IgnoreFacts.v — facts about .goitignore handling (Ignore.v) and the pure
   pieces of `add` / `status` that use it (Repo.v).

   C17: Goit's own directory and ignored paths never enter the staging area.
   C13: the working-tree report is exact and content-based.

   Regex facts go through [matches_spec] and the [lang_*] lemmas of
   RegexFacts.v; derivatives are only ever computed on closed examples. *)
From Coq Require Import Strings.String Strings.Byte.
From Coq Require Import List Bool NArith Arith Lia Setoid.
From Goit Require Import Bytes Sha1 Obj Tree Index Regex GoRegex Commit Reflog Config
     Ignore World Repo BytesFacts RegexFacts IndexFacts.
Import ListNotations.

(* ====================================================================== *)
(** * 0. Small list / byte helpers                                          *)
(* ====================================================================== *)

(* "starts at the beginning or right after a '/'" in two equivalent forms *)
Definition bnd (pre : bytes) : Prop := pre = [] \/ exists pre', pre = pre' ++ [c_slash].

Lemma bnd_last_iff (pre : bytes) : bnd pre <-> (pre = [] \/ last pre x00 = c_slash).
Proof.
  unfold bnd. split; intros [E | H]; try (left; exact E).
  - destruct H as [p' E]. right. subst pre. apply last_last.
  - destruct pre as [|c p]; [left; reflexivity|]. right.
    exists (removelast (c :: p)).
    pose proof (@app_removelast_last byte (c :: p) x00) as E.
    rewrite H in E. apply E. discriminate.
Qed.

Lemma not_in_app_l (x : byte) (a b : bytes) : ~ In x (a ++ b) -> ~ In x a.
Proof. intros H Hin. apply H. apply in_or_app. left. exact Hin. Qed.

Lemma not_in_app_r (x : byte) (a b : bytes) : ~ In x (a ++ b) -> ~ In x b.
Proof. intros H Hin. apply H. apply in_or_app. right. exact Hin. Qed.

Lemma not_in_app (x : byte) (a b : bytes) : ~ In x a -> ~ In x b -> ~ In x (a ++ b).
Proof. intros Ha Hb Hin. apply in_app_or in Hin. destruct Hin as [H | H]; [exact (Ha H) | exact (Hb H)]. Qed.

(* ====================================================================== *)
(** * 1. Semantics of the boundary match                                    *)
(* ====================================================================== *)

Lemma boundary_match_gen r : forall t b,
  boundary_match r b t = true <->
  exists pre suf, t = pre ++ suf /\ lang r suf /\
    ((pre = [] /\ b = true) \/ exists pre', pre = pre' ++ [c_slash]).
Proof.
  induction t as [|c t IH]; intros b.
  - cbn [boundary_match]. rewrite orb_false_r. split.
    + intros H. apply andb_true_iff in H. destruct H as [Hb Hm].
      apply matches_spec in Hm.
      exists [], []. split; [reflexivity|]. split; [exact Hm|].
      left. split; [reflexivity | exact Hb].
    + intros [pre [suf [E [Hl Hb]]]]. symmetry in E. apply app_eq_nil in E.
      destruct E as [E1 E2]. subst pre suf.
      destruct Hb as [[_ Hb] | [p' E]].
      * subst b. cbn [andb]. apply matches_spec. exact Hl.
      * destruct p'; discriminate E.
  - cbn [boundary_match]. rewrite orb_true_iff, andb_true_iff, matches_spec, IH. split.
    + intros [[Hb Hm] | [pre [suf [E [Hl Hb]]]]].
      * exists [], (c :: t). split; [reflexivity|]. split; [exact Hm|].
        left. split; [reflexivity | exact Hb].
      * exists (c :: pre), suf. split; [cbn [app]; rewrite E; reflexivity|].
        split; [exact Hl|]. right.
        destruct Hb as [[E1 Hc] | [p' E1]].
        -- apply beqb_eq in Hc. subst c pre. exists []. reflexivity.
        -- exists (c :: p'). subst pre. reflexivity.
    + intros [pre [suf [E [Hl Hb]]]]. destruct Hb as [[E1 Hb] | [p' E1]].
      * subst pre b. cbn [app] in E. subst suf. left. split; [reflexivity | exact Hl].
      * right. subst pre. destruct p' as [|c' p'].
        -- cbn [app] in E. injection E as Ec Et. subst c.
           exists [], suf. split; [exact Et|]. split; [exact Hl|].
           left. split; [reflexivity | apply beqb_refl].
        -- cbn [app] in E. injection E as Ec Et.
           exists (p' ++ [c_slash]), suf. split; [exact Et|]. split; [exact Hl|].
           right. exists p'. reflexivity.
Qed.

Theorem boundary_match_spec : forall r t,
  boundary_match r true t = true <->
  exists pre suf, t = pre ++ suf /\ lang r suf /\
    (pre = [] \/ exists pre', pre = pre' ++ [c_slash]).
Proof.
  intros r t. rewrite boundary_match_gen. split.
  - intros [pre [suf [E [Hl Hb]]]]. exists pre, suf. split; [exact E|]. split; [exact Hl|].
    destruct Hb as [[E1 _] | Hb]; [left; exact E1 | right; exact Hb].
  - intros [pre [suf [E [Hl Hb]]]]. exists pre, suf. split; [exact E|]. split; [exact Hl|].
    destruct Hb as [E1 | Hb]; [left; split; [exact E1 | reflexivity] | right; exact Hb].
Qed.

(* not at a boundary: the empty prefix is not allowed *)
Theorem boundary_match_spec_false : forall r t,
  boundary_match r false t = true <->
  exists pre' suf, t = (pre' ++ [c_slash]) ++ suf /\ lang r suf.
Proof.
  intros r t. rewrite boundary_match_gen. split.
  - intros [pre [suf [E [Hl Hb]]]]. destruct Hb as [[_ Hb] | [p' E1]]; [discriminate Hb|].
    subst pre. exists p', suf. split; [exact E | exact Hl].
  - intros [p' [suf [E Hl]]]. exists (p' ++ [c_slash]), suf.
    split; [exact E|]. split; [exact Hl|]. right. exists p'. reflexivity.
Qed.

Lemma ign_match_single r t : ign_match [r] t = boundary_match r true t.
Proof. unfold ign_match. cbn [existsb]. apply orb_false_r. Qed.

Lemma ign_match_In pats r t :
  In r pats -> boundary_match r true t = true -> ign_match pats t = true.
Proof.
  intros Hin Hm. unfold ign_match. apply existsb_exists. exists r. split; [exact Hin | exact Hm].
Qed.

(* patterns whose language is "a fixed text, then anything" *)
Lemma bm_prefix_only r lit t :
  (forall s, lang r s -> exists rest, s = lit ++ rest) ->
  boundary_match r true t = true ->
  exists a rest, t = a ++ lit ++ rest /\ (a = [] \/ last a x00 = c_slash).
Proof.
  intros Hr Hm. apply boundary_match_spec in Hm.
  destruct Hm as [pre [suf [E [Hl Hb]]]]. apply Hr in Hl. destruct Hl as [rest Es].
  exists pre, rest. split; [rewrite E, Es; reflexivity|].
  apply bnd_last_iff. exact Hb.
Qed.

Lemma bm_prefix_if r lit :
  (forall rest, lang r (lit ++ rest)) ->
  forall a rest, (a = [] \/ last a x00 = c_slash) ->
  boundary_match r true (a ++ lit ++ rest) = true.
Proof.
  intros Hr a rest Ha. apply boundary_match_spec.
  exists a, (lit ++ rest). split; [reflexivity|]. split; [apply Hr|].
  apply bnd_last_iff. exact Ha.
Qed.

(* ====================================================================== *)
(** * 2. Translation of entries over the inert alphabet                     *)
(* ====================================================================== *)

(* letters, digits, '-', '_' (and '/', which [is_inert] also accepts) *)
Definition inert_str (s : bytes) : Prop := forallb is_inert s = true.
(* one path component: additionally no '/' *)
Definition inert_comp (s : bytes) : Prop := forallb is_inert s = true /\ ~ In c_slash s.

Lemma inert_in s c : forallb is_inert s = true -> In c s -> is_inert c = true.
Proof. intros H Hin. rewrite forallb_forall in H. apply H. exact Hin. Qed.

Lemma inert_no_nl s : forallb is_inert s = true -> ~ In c_nl s.
Proof. intros H Hin. apply (inert_in _ _ H) in Hin. vm_compute in Hin. discriminate Hin. Qed.

Lemma inert_no_dot s : forallb is_inert s = true -> ~ In x2e s.
Proof. intros H Hin. apply (inert_in _ _ H) in Hin. vm_compute in Hin. discriminate Hin. Qed.

Lemma inert_no_star s : forallb is_inert s = true -> ~ In x2a s.
Proof. intros H Hin. apply (inert_in _ _ H) in Hin. vm_compute in Hin. discriminate Hin. Qed.

Lemma is_inert_not_star c : is_inert c = true -> beqb c x2a = false.
Proof. intros H. apply beqb_neq. intros E. subst c. vm_compute in H. discriminate H. Qed.

Lemma is_inert_not_dot c : is_inert c = true -> beqb c x2e = false.
Proof. intros H. apply beqb_neq. intros E. subst c. vm_compute in H. discriminate H. Qed.

(* the text [l] followed by [t] *)
Fixpoint lit_then (l : bytes) (t : regex) : regex :=
  match l with [] => t | c :: r => RCat (RChar c) (lit_then r t) end.

Lemma lang_lit_then : forall l t s,
  lang (lit_then l t) s <-> exists s', s = l ++ s' /\ lang t s'.
Proof.
  induction l as [|c l IH]; intros t s; cbn [lit_then].
  - split.
    + intros H. exists s. split; [reflexivity | exact H].
    + intros [s' [E H]]. cbn [app] in E. subst s. exact H.
  - rewrite lang_RCat. split.
    + intros [s1 [s2 [E [H1 H2]]]]. apply lang_RChar in H1. apply IH in H2.
      destruct H2 as [s' [E2 H2]]. subst s s1 s2. exists s'. split; [reflexivity | exact H2].
    + intros [s' [E H]]. exists [c], (l ++ s'). split; [subst s; reflexivity|].
      split; [apply lang_RChar; reflexivity|]. apply IH. exists s'. split; [reflexivity | exact H].
Qed.

Lemma dir_line_regex_inert : forall l,
  forallb is_inert l = true -> dir_line_regex l = Some (lit_then l (RStar RAny)).
Proof.
  induction l as [|c l IH]; intros H; cbn [dir_line_regex lit_then]; [reflexivity|].
  cbn [forallb] in H. apply andb_true_iff in H. destruct H as [Hc Hl].
  rewrite (IH Hl), Hc. reflexivity.
Qed.

Lemma file_line_regex_inert : forall l,
  forallb is_inert l = true -> file_line_regex l = Some (lit_then l REps).
Proof.
  induction l as [|c l IH]; intros H; cbn [file_line_regex lit_then]; [reflexivity|].
  cbn [forallb] in H. apply andb_true_iff in H. destruct H as [Hc Hl].
  rewrite (IH Hl), (is_inert_not_star c Hc), (is_inert_not_dot c Hc), Hc. reflexivity.
Qed.

(* which lines are "directory lines".  [directoryRegexp] is NOT one of the
   patterns compiled with (?s): its '.' keeps Go's default meaning, hence the
   newline condition on the text before the '/'.  It is applied to a LINE of
   .goitignore, which never contains '\n' ([scan_lines]); below it is only
   used on inert names ([inert_no_nl]). *)
Lemma dir_search_true a b :
  ~ In c_nl a -> re_search re_directoryRegexp (a ++ c_slash :: b) = true.
Proof.
  intros Hnl. apply re_search_spec. exists [], (a ++ [c_slash]), b.
  split; [cbn [app]; rewrite <- app_assoc; reflexivity|].
  split.
  - cbn [re_directoryRegexp p_body]. apply lang_RCat. exists a, [c_slash].
    split; [reflexivity|]. split; [apply lang_star_nonl; exact Hnl | apply lang_RLit; reflexivity].
  - split; intros Hd; discriminate Hd.
Qed.

Lemma dir_search_false l :
  ~ In c_slash l -> re_search re_directoryRegexp l = false.
Proof.
  intros Hns. destruct (re_search re_directoryRegexp l) eqn:Es; [exfalso | reflexivity].
  apply re_search_spec in Es. destruct Es as [pre [mid [post [E [Hl _]]]]].
  cbn [re_directoryRegexp p_body] in Hl. apply lang_RCat in Hl.
  destruct Hl as [s1 [s2 [Em [_ H2]]]]. apply lang_RLit in H2. subst s2 mid l.
  apply Hns. apply in_or_app. right. apply in_or_app. left. apply in_or_app. right.
  left. reflexivity.
Qed.

(* the regex of a directory entry "text/" *)
Lemma ign_line_dir name :
  forallb is_inert name = true ->
  ign_line (name ++ [c_slash]) = Some (lit_then (name ++ [c_slash]) (RStar RAny)).
Proof.
  intros Hn. unfold ign_line. rewrite (dir_search_true name [] (inert_no_nl _ Hn)).
  apply dir_line_regex_inert. rewrite forallb_app, Hn. reflexivity.
Qed.

(* the regex of an extension entry "*.ext" *)
Lemma ign_line_ext ext :
  inert_comp ext ->
  ign_line ([x2a; x2e] ++ ext) =
  Some (RCat (RStar RAny) (RCat (RChar x2e) (lit_then ext REps))).
Proof.
  intros [Hi Hns]. unfold ign_line. rewrite dir_search_false.
  - cbn [app file_line_regex]. rewrite (file_line_regex_inert ext Hi). reflexivity.
  - cbn [app]. intros [E | [E | Hin]]; [discriminate E | discriminate E | exact (Hns Hin)].
Qed.

(* ---------- 2a. the built-in pattern ---------- *)

Lemma lang_builtin s :
  lang ign_builtin s <-> exists rest, s = str ".goit/" ++ rest.
Proof.
  unfold ign_builtin. rewrite lang_RCat. split.
  - intros [s1 [s2 [E [H1 _]]]]. apply lang_RLit in H1.
    subst s s1. exists s2. reflexivity.
  - intros [rest E]. exists (str ".goit/"), rest. split; [exact E|].
    split; [apply lang_RLit; reflexivity | apply lang_RAny_star].
Qed.

Theorem builtin_excludes_at : forall a rest,
  (a = [] \/ last a x00 = c_slash) ->
  ign_match [ign_builtin] (a ++ str ".goit/" ++ rest) = true.
Proof.
  intros a rest Ha. rewrite ign_match_single.
  apply (bm_prefix_if ign_builtin (str ".goit/")); [|exact Ha].
  intros rest'. apply lang_builtin. exists rest'. reflexivity.
Qed.

Theorem builtin_excludes : forall rest,
  ign_match [ign_builtin] (str ".goit/" ++ rest) = true.
Proof.
  intros rest. apply (builtin_excludes_at [] rest). left. reflexivity.
Qed.

Theorem builtin_only : forall t,
  ign_match [ign_builtin] t = true ->
  exists a rest, t = a ++ str ".goit/" ++ rest /\ (a = [] \/ last a x00 = c_slash).
Proof.
  intros t Hm. rewrite ign_match_single in Hm.
  apply (bm_prefix_only ign_builtin (str ".goit/") t); [|exact Hm].
  intros s Hl. apply lang_builtin in Hl. exact Hl.
Qed.

Example builtin_not_x_goit : ign_match [ign_builtin] (str "x.goit/f") = false.
Proof. vm_compute. reflexivity. Qed.

Example builtin_goit_head : ign_match [ign_builtin] (str ".goit/HEAD") = true.
Proof. vm_compute. reflexivity. Qed.

Example builtin_nested_goit : ign_match [ign_builtin] (str "sub/.goit/x") = true.
Proof. vm_compute. reflexivity. Qed.

(* [builtin_excludes] has no side condition: the pattern is compiled with the
   `s` flag, so '.' matches a newline too (without the flag this name escaped) *)
Example builtin_newline_no_longer_escapes :
  ign_match [ign_builtin] (str ".goit/a" ++ [c_nl] ++ str "b") = true.
Proof. vm_compute. reflexivity. Qed.

(* ---------- 2b. directory entries ---------- *)

(* [name] may itself contain '/' (several components) *)
Theorem dir_entry_spec_gen : forall name r t,
  forallb is_inert name = true ->
  ign_line (name ++ [c_slash]) = Some r ->
  (boundary_match r true t = true <->
   exists a rest, t = a ++ name ++ [c_slash] ++ rest /\ (a = [] \/ last a x00 = c_slash)).
Proof.
  intros name r t Hn Hr. rewrite (ign_line_dir name Hn) in Hr. injection Hr as Hr. subst r.
  split.
  - intros Hm.
    assert (Hp : forall s, lang (lit_then (name ++ [c_slash]) (RStar RAny)) s ->
                           exists rest, s = (name ++ [c_slash]) ++ rest).
    { intros s Hl. apply lang_lit_then in Hl. destruct Hl as [s' [E _]]. exists s'. exact E. }
    destruct (bm_prefix_only _ _ t Hp Hm) as [a [rest [E Ha]]].
    exists a, rest. split; [rewrite E, <- app_assoc; reflexivity | exact Ha].
  - intros [a [rest [E Ha]]]. subst t.
    replace (a ++ name ++ [c_slash] ++ rest) with (a ++ (name ++ [c_slash]) ++ rest)
      by (rewrite <- (app_assoc name); reflexivity).
    apply bm_prefix_if; [|exact Ha].
    intros rest'. apply lang_lit_then. exists rest'. split; [reflexivity|].
    apply lang_RAny_star.
Qed.

Theorem dir_entry_spec : forall name r t,
  inert_comp name ->
  ign_line (name ++ [c_slash]) = Some r ->
  (boundary_match r true t = true <->
   exists a rest, t = a ++ name ++ [c_slash] ++ rest /\ (a = [] \/ last a x00 = c_slash)).
Proof. intros name r t [Hn _]. apply dir_entry_spec_gen. exact Hn. Qed.

(* ---------- 2c. extension entries ---------- *)

Theorem ext_entry_spec : forall ext r t,
  inert_comp ext ->
  ign_line ([x2a; x2e] ++ ext) = Some r ->
  (boundary_match r true t = true <-> exists stem, t = stem ++ [x2e] ++ ext).
Proof.
  intros ext r t He Hr. rewrite (ign_line_ext ext He) in Hr. injection Hr as Hr. subst r.
  assert (Hlang : forall s, lang (RCat (RStar RAny) (RCat (RChar x2e) (lit_then ext REps))) s <->
                            exists s1, s = s1 ++ [x2e] ++ ext).
  { intros s. rewrite lang_RCat. split.
    - intros [s1 [s2 [E [_ H2]]]]. apply lang_RCat in H2.
      destruct H2 as [s3 [s4 [E2 [H3 H4]]]]. apply lang_RChar in H3. apply lang_lit_then in H4.
      destruct H4 as [s5 [E4 H5]]. apply lang_REps in H5. subst s5. rewrite app_nil_r in E4.
      subst s s2 s3 s4. exists s1. reflexivity.
    - intros [s1 E]. exists s1, ([x2e] ++ ext). split; [exact E|].
      split; [apply lang_RAny_star|]. apply lang_RCat. exists [x2e], ext.
      split; [reflexivity|]. split; [apply lang_RChar; reflexivity|].
      apply lang_lit_then. exists []. split; [rewrite app_nil_r; reflexivity | apply lang_REps; reflexivity]. }
  rewrite boundary_match_spec. split.
  - intros [pre [suf [E [Hl _]]]]. apply Hlang in Hl. destruct Hl as [s1 Es].
    exists (pre ++ s1). rewrite E, Es, <- app_assoc. reflexivity.
  - intros [stem E]. exists [], t. split; [reflexivity|]. split; [|left; reflexivity].
    apply Hlang. exists stem. exact E.
Qed.

(* ====================================================================== *)
(** * 3. The specification of exclusion in terms of path components         *)
(* ====================================================================== *)

Definition comps (p : bytes) : list bytes := split_all c_slash p.

(* p lies under a directory named by the components ds somewhere along its
   path: some contiguous run of components before the last equals ds *)
Definition under_named (ds : list bytes) (p : bytes) : Prop :=
  exists a b, comps p = a ++ ds ++ b /\ b <> [] /\ ds <> [].

(* ext includes the leading "." *)
Definition has_ext (ext : bytes) (p : bytes) : Prop :=
  exists stem, last (comps p) [] = stem ++ ext.

Lemma split_all_nonnil sep s : split_all sep s <> [].
Proof.
  destruct s as [|c r]; cbn [split_all]; [discriminate|].
  destruct (beqb c sep) eqn:?; [discriminate|].
  destruct (split_all sep r); discriminate.
Qed.

Lemma split_all_app_sep sep : forall a b,
  split_all sep (a ++ sep :: b) = split_all sep a ++ split_all sep b.
Proof.
  induction a as [|c a IH]; intros b.
  - cbn [app split_all]. rewrite beqb_refl. reflexivity.
  - cbn [app split_all]. rewrite IH. destruct (beqb c sep) eqn:?; [reflexivity|].
    destruct (split_all sep a) as [|h t] eqn:Ea; [exfalso; exact (split_all_nonnil sep a Ea)|].
    reflexivity.
Qed.

Lemma split_all_nosep sep : forall s, ~ In sep s -> split_all sep s = [s].
Proof.
  induction s as [|c s IH]; intros Hn; [reflexivity|].
  cbn [split_all]. destruct (beqb c sep) eqn:Ec.
  - apply beqb_eq in Ec. exfalso. apply Hn. left. exact Ec.
  - rewrite IH; [reflexivity|]. intros Hin. apply Hn. right. exact Hin.
Qed.

Lemma join_cons2 sep (x y : bytes) l : join sep (x :: y :: l) = x ++ sep ++ join sep (y :: l).
Proof. reflexivity. Qed.

Lemma join_split_all sep : forall s, join [sep] (split_all sep s) = s.
Proof.
  induction s as [|c s IH]; [reflexivity|].
  cbn [split_all]. destruct (beqb c sep) eqn:Ec.
  - apply beqb_eq in Ec. subst c.
    destruct (split_all sep s) as [|h t] eqn:Es; [exfalso; exact (split_all_nonnil sep s Es)|].
    rewrite join_cons2, IH. reflexivity.
  - destruct (split_all sep s) as [|h t] eqn:Es; [exfalso; exact (split_all_nonnil sep s Es)|].
    destruct t as [|x t].
    + cbn [join] in IH |- *. rewrite IH. reflexivity.
    + rewrite join_cons2 in IH |- *. rewrite <- app_comm_cons, IH. reflexivity.
Qed.

Lemma join_app sep : forall l1 l2 : list bytes,
  l1 <> [] -> l2 <> [] -> join sep (l1 ++ l2) = join sep l1 ++ sep ++ join sep l2.
Proof.
  induction l1 as [|x l1 IH]; intros l2 H1 H2; [contradiction H1; reflexivity|].
  destruct l1 as [|y l1].
  - destruct l2 as [|z l2]; [contradiction H2; reflexivity|]. reflexivity.
  - change ((x :: y :: l1) ++ l2) with (x :: y :: (l1 ++ l2)).
    rewrite !join_cons2. change (y :: l1 ++ l2) with ((y :: l1) ++ l2).
    rewrite IH; [|discriminate | exact H2]. rewrite <- !app_assoc. reflexivity.
Qed.

Lemma split_all_join : forall ds : list bytes,
  ds <> [] -> Forall (fun d => ~ In c_slash d) ds -> split_all c_slash (join [c_slash] ds) = ds.
Proof.
  induction ds as [|x ds IH]; intros Hne HF; [contradiction Hne; reflexivity|].
  destruct ds as [|y ds].
  - cbn [join]. apply split_all_nosep. exact (Forall_inv HF).
  - rewrite join_cons2. cbn [app]. rewrite split_all_app_sep.
    rewrite (split_all_nosep _ _ (Forall_inv HF)).
    rewrite IH; [reflexivity | discriminate | exact (Forall_inv_tail HF)].
Qed.

(* "somewhere along the path" as a statement about the raw byte string *)
Theorem under_named_iff : forall ds p,
  ds <> [] -> Forall (fun d => ~ In c_slash d) ds ->
  (under_named ds p <->
   exists a rest, p = a ++ join [c_slash] ds ++ [c_slash] ++ rest /\ (a = [] \/ last a x00 = c_slash)).
Proof.
  intros ds p Hne HF. split.
  - intros [A [B [E [HB _]]]].
    assert (HdB : ds ++ B <> []).
    { intros E0. apply app_eq_nil in E0. destruct E0 as [E0 _]. exact (Hne E0). }
    assert (Ep : p = join [c_slash] (comps p)) by (symmetry; apply join_split_all).
    rewrite E in Ep.
    destruct A as [|x A].
    + cbn [app] in Ep. rewrite (join_app _ ds B Hne HB) in Ep.
      exists [], (join [c_slash] B). split; [exact Ep | left; reflexivity].
    + rewrite (join_app _ (x :: A) (ds ++ B)) in Ep; [|discriminate | exact HdB].
      rewrite (join_app _ ds B Hne HB) in Ep.
      exists (join [c_slash] (x :: A) ++ [c_slash]), (join [c_slash] B).
      split; [rewrite Ep, <- app_assoc; reflexivity|]. right. apply last_last.
  - intros [a [rest [E Ha]]]. apply bnd_last_iff in Ha. unfold under_named, comps.
    destruct Ha as [Ea | [a' Ea]]; subst a.
    + exists [], (split_all c_slash rest). cbn [app] in E |- *. subst p.
      rewrite split_all_app_sep, (split_all_join ds Hne HF).
      split; [reflexivity|]. split; [apply split_all_nonnil | exact Hne].
    + exists (split_all c_slash a'), (split_all c_slash rest). subst p.
      rewrite <- app_assoc. cbn [app]. rewrite split_all_app_sep, split_all_app_sep.
      rewrite (split_all_join ds Hne HF).
      split; [reflexivity|]. split; [apply split_all_nonnil | exact Hne].
Qed.

Lemma join_inert : forall ds,
  Forall inert_comp ds -> forallb is_inert (join [c_slash] ds) = true.
Proof.
  induction ds as [|x ds IH]; intros HF; [reflexivity|].
  destruct ds as [|y ds].
  - cbn [join]. exact (proj1 (Forall_inv HF)).
  - rewrite join_cons2, forallb_app, forallb_app, (proj1 (Forall_inv HF)).
    rewrite (IH (Forall_inv_tail HF)). reflexivity.
Qed.

Lemma Forall_inert_noslash ds : Forall inert_comp ds -> Forall (fun d => ~ In c_slash d) ds.
Proof. intros HF. eapply Forall_impl; [|exact HF]. intros d [_ H]. exact H. Qed.

(* an entry "d1/d2/.../dk/" excludes exactly the paths lying under a directory
   chain with these names, at any depth *)
Theorem dir_entry_under_named : forall ds r p,
  ds <> [] -> Forall inert_comp ds ->
  ign_line (join [c_slash] ds ++ [c_slash]) = Some r ->
  (boundary_match r true p = true <-> under_named ds p).
Proof.
  intros ds r p Hne HF Hr.
  rewrite (dir_entry_spec_gen _ r p (join_inert ds HF) Hr).
  rewrite (under_named_iff ds p Hne (Forall_inert_noslash ds HF)). reflexivity.
Qed.

Corollary dir_entry_under_named1 : forall name r p,
  inert_comp name ->
  ign_line (name ++ [c_slash]) = Some r ->
  (boundary_match r true p = true <-> under_named [name] p).
Proof.
  intros name r p Hn Hr.
  apply (dir_entry_under_named [name] r p); [discriminate | | exact Hr].
  apply Forall_cons; [exact Hn | apply Forall_nil].
Qed.

(* the built-in pattern, in the same terms *)
Lemma goit_noslash : Forall (fun d : bytes => ~ In c_slash d) [str ".goit"].
Proof.
  apply Forall_cons; [|apply Forall_nil].
  intros Hin. vm_compute in Hin.
  repeat (destruct Hin as [Hin | Hin]; [discriminate Hin|]). exact Hin.
Qed.

Theorem builtin_under_named : forall t,
  ign_match [ign_builtin] t = true -> under_named [str ".goit"] t.
Proof.
  intros t Hm. apply builtin_only in Hm. destruct Hm as [a [rest [E Ha]]].
  apply (under_named_iff [str ".goit"] t); [discriminate | |].
  - exact goit_noslash.
  - exists a, rest. split; [exact E | exact Ha].
Qed.

Theorem builtin_under_named_iff : forall t,
  ign_match [ign_builtin] t = true <-> under_named [str ".goit"] t.
Proof.
  intros t. split; [apply builtin_under_named|].
  intros Hu. apply (under_named_iff [str ".goit"] t) in Hu; [|discriminate|].
  - destruct Hu as [a [rest [E Ha]]]. subst t.
    exact (builtin_excludes_at a rest Ha).
  - exact goit_noslash.
Qed.

(* extension: the last component ends with ".ext" *)
Lemma comps_app_nosep : forall a b,
  ~ In c_slash b ->
  comps (a ++ b) = removelast (comps a) ++ [last (comps a) [] ++ b].
Proof.
  unfold comps. induction a as [|c a IH]; intros b Hb.
  - cbn [app split_all removelast last]. apply split_all_nosep. exact Hb.
  - cbn [app split_all]. rewrite (IH b Hb).
    destruct (split_all c_slash a) as [|h t] eqn:Ea; [exfalso; exact (split_all_nonnil _ _ Ea)|].
    destruct (beqb c c_slash) eqn:?.
    + reflexivity.
    + destruct t as [|x t]; reflexivity.
Qed.

Theorem has_ext_iff : forall ext p,
  ~ In c_slash ext -> (has_ext ext p <-> exists stem, p = stem ++ ext).
Proof.
  intros ext p He. unfold has_ext. split.
  - intros [stem E].
    pose proof (@app_removelast_last bytes (comps p) [] (split_all_nonnil _ _)) as Ec.
    rewrite E in Ec.
    assert (Ep : p = join [c_slash] (comps p)) by (symmetry; apply join_split_all).
    rewrite Ec in Ep. destruct (removelast (comps p)) as [|x l].
    + cbn [app join] in Ep. exists stem. exact Ep.
    + rewrite join_app in Ep; [|discriminate|discriminate]. cbn [join] in Ep.
      exists (join [c_slash] (x :: l) ++ [c_slash] ++ stem).
      rewrite Ep, <- !app_assoc. reflexivity.
  - intros [stem E]. subst p. rewrite (comps_app_nosep stem ext He).
    exists (last (comps stem) []). apply last_last.
Qed.

Theorem ext_entry_has_ext : forall ext r p,
  inert_comp ext ->
  ign_line ([x2a; x2e] ++ ext) = Some r ->
  (boundary_match r true p = true <-> has_ext ([x2e] ++ ext) p).
Proof.
  intros ext r p He Hr. rewrite (ext_entry_spec ext r p He Hr).
  rewrite has_ext_iff; [reflexivity|].
  cbn [app]. intros [E | Hin]; [discriminate E | exact (proj2 He Hin)].
Qed.

(* ====================================================================== *)
(** * 4. Without a .goitignore nothing outside .goit/ is hidden             *)
(* ====================================================================== *)

Lemma ign_load_none : ign_load None = Some [ign_builtin].
Proof. reflexivity. Qed.

Lemma ign_load_builtin file pats : ign_load file = Some pats -> In ign_builtin pats.
Proof.
  unfold ign_load. destruct file as [b|].
  - destruct (ign_lines (scan_lines b)) eqn:?; intros E; [|discriminate E].
    injection E as E. subst pats. left. reflexivity.
  - intros E. injection E as E. subst pats. left. reflexivity.
Qed.

(* ---------------------------------------------------------------------- *)
(** ** 4b. Empty lines of .goitignore are not entries (finding F55)          *)

(* [ign_lines], one line at a time *)
Lemma ign_lines_nil_cons : forall r, ign_lines ([] :: r) = ign_lines r.
Proof. reflexivity. Qed.

Lemma ign_lines_cons : forall (l : bytes) r, l <> [] ->
  ign_lines (l :: r) =
  match ign_line l, ign_lines r with
  | Some x, Some xs => Some (x :: xs)
  | _, _ => None
  end.
Proof. intros [|c l] r H; [contradiction H; reflexivity | reflexivity]. Qed.

(* what the empty line was before the repair: the empty pattern, which —
   wrapped as `(^|/)(?:)$` — matches every target that ends in '/', that is
   every directory target *)
Lemma empty_line_was_empty_pattern : ign_line [] = Some REps.
Proof. vm_compute. reflexivity. Qed.

Lemma empty_pattern_matches_every_dir_at : forall d b, boundary_match REps b (d ++ [c_slash]) = true.
Proof.
  induction d as [|c d IH]; intro b.
  - cbn [app boundary_match]. rewrite beqb_refl. cbn [matches nullable andb orb].
    apply orb_true_r.
  - cbn [app boundary_match]. rewrite IH. apply orb_true_r.
Qed.

Lemma empty_pattern_matches_every_dir : forall d, boundary_match REps true (d ++ [c_slash]) = true.
Proof. intro d. apply empty_pattern_matches_every_dir_at. Qed.

(* blank lines change nothing, wherever they stand *)
Theorem blank_lines_change_nothing : forall l1 l2,
  ign_lines (l1 ++ [] :: l2) = ign_lines (l1 ++ l2).
Proof.
  induction l1 as [|l l1 IH]; intro l2.
  - reflexivity.
  - cbn [app]. destruct l as [|c l].
    + rewrite !ign_lines_nil_cons. apply IH.
    + rewrite !ign_lines_cons by discriminate. rewrite IH. reflexivity.
Qed.

(* more generally: only the non-empty lines count *)
Definition nonempty_line (l : bytes) : bool := match l with [] => false | _ => true end.

Theorem ign_lines_nonempty : forall ls, ign_lines ls = ign_lines (filter nonempty_line ls).
Proof.
  induction ls as [|l r IH]; [reflexivity|].
  destruct l as [|c l]; cbn [filter nonempty_line].
  - rewrite ign_lines_nil_cons. exact IH.
  - rewrite !ign_lines_cons by discriminate. rewrite IH. reflexivity.
Qed.

(* the scanner: a line feed ends a line whatever came before it, so the text
   after it is scanned from a fresh state *)
Lemma scan_lines_aux_nl_split : forall b1 cur r,
  scan_lines_aux cur (b1 ++ c_nl :: r) = scan_lines_aux cur (b1 ++ [c_nl]) ++ scan_lines r.
Proof.
  induction b1 as [|x b1 IH]; intros cur r.
  - cbn [app]. rewrite !scan_lines_aux_cons, beqb_refl. reflexivity.
  - cbn [app]. rewrite !scan_lines_aux_cons. destruct (beqb x c_nl).
    + rewrite IH. reflexivity.
    + apply IH.
Qed.

Lemma scan_lines_nl_split : forall b1 r,
  scan_lines (b1 ++ c_nl :: r) = scan_lines (b1 ++ [c_nl]) ++ scan_lines r.
Proof. intros b1 r. exact (scan_lines_aux_nl_split b1 [] r). Qed.

Lemma scan_lines_nl_cons : forall r, scan_lines (c_nl :: r) = [] :: scan_lines r.
Proof. reflexivity. Qed.

Lemma scan_lines_crnl_cons : forall r, scan_lines (c_cr :: c_nl :: r) = [] :: scan_lines r.
Proof. reflexivity. Qed.

(* on the bytes of the file, for ALL b1 and b2 (they may themselves contain line
   feeds, carriage returns, further blank lines): a second line feed right after
   a line feed — an empty line — can be removed without changing what is loaded *)
Theorem blank_line_bytes_change_nothing : forall b1 b2,
  ign_load (Some (b1 ++ [c_nl] ++ [c_nl] ++ b2)) = ign_load (Some (b1 ++ [c_nl] ++ b2)).
Proof.
  intros b1 b2. cbn [app ign_load].
  rewrite (scan_lines_nl_split b1 (c_nl :: b2)), (scan_lines_nl_split b1 b2).
  rewrite scan_lines_nl_cons, blank_lines_change_nothing. reflexivity.
Qed.

(* the same for a line that holds a carriage return only (the scanner removes
   it: the line is empty) and for an empty FIRST line *)
Theorem blank_crlf_line_bytes_change_nothing : forall b1 b2,
  ign_load (Some (b1 ++ [c_nl] ++ [c_cr; c_nl] ++ b2)) = ign_load (Some (b1 ++ [c_nl] ++ b2)).
Proof.
  intros b1 b2. cbn [app ign_load].
  rewrite (scan_lines_nl_split b1 (c_cr :: c_nl :: b2)), (scan_lines_nl_split b1 b2).
  rewrite scan_lines_crnl_cons, blank_lines_change_nothing. reflexivity.
Qed.

Theorem blank_first_line_changes_nothing : forall b,
  ign_load (Some ([c_nl] ++ b)) = ign_load (Some b) /\
  ign_load (Some ([c_cr; c_nl] ++ b)) = ign_load (Some b).
Proof. intro b. split; reflexivity. Qed.

(* a file of empty lines only loads as no file at all does *)
Corollary only_blank_lines_load_builtin : forall n,
  ign_load (Some (repeat c_nl n)) = Some [ign_builtin].
Proof.
  induction n as [|n IH]; [reflexivity|].
  cbn [repeat]. rewrite <- IH. exact (proj1 (blank_first_line_changes_nothing (repeat c_nl n))).
Qed.

(* the target handed to [ign_match] is the path itself or the path plus '/' *)
Lemma ignored_cases w pats p :
  ignored w pats p = ign_match pats p \/ ignored w pats p = ign_match pats (p ++ [c_slash]).
Proof.
  unfold ignored. destruct (wt_stat w p).
  - left. reflexivity.
  - destruct (re_search re_directoryRegexp p) eqn:?; [left | right]; reflexivity.
  - destruct (is_nil (entries_by_dir (idx_of w) p)) eqn:?; [left | right]; reflexivity.
  - destruct (is_nil (entries_by_dir (idx_of w) p)) eqn:?; [left | right]; reflexivity.
Qed.

Lemma ancestors_from_In : forall s pre d,
  In d (ancestors_from pre s) ->
  exists s1 s2, s = s1 ++ c_slash :: s2 /\ d = rev pre ++ s1.
Proof.
  induction s as [|c s IH]; intros pre d Hin; [contradiction Hin|].
  cbn [ancestors_from] in Hin. destruct (beqb c c_slash) eqn:Ec.
  - destruct Hin as [Ed | Hin].
    + apply beqb_eq in Ec. subst c d. exists [], s. split; [reflexivity|].
      rewrite app_nil_r. reflexivity.
    + apply IH in Hin. destruct Hin as [s1 [s2 [Es Ed]]]. exists (c :: s1), s2.
      split; [rewrite Es; reflexivity|]. rewrite Ed. cbn [rev]. rewrite <- app_assoc. reflexivity.
  - apply IH in Hin. destruct Hin as [s1 [s2 [Es Ed]]]. exists (c :: s1), s2.
    split; [rewrite Es; reflexivity|]. rewrite Ed. cbn [rev]. rewrite <- app_assoc. reflexivity.
Qed.

(* an ancestor is a proper directory prefix *)
Lemma ancestors_In f d :
  In d (ancestors f) -> exists rest, f = d ++ c_slash :: rest.
Proof.
  intros Hin. apply ancestors_from_In in Hin. destruct Hin as [s1 [s2 [Es Ed]]].
  cbn [rev app] in Ed. subst d. exists s2. exact Es.
Qed.

Lemma builtin_needs_goit_comp t :
  ~ In (str ".goit") (comps t) -> ign_match [ign_builtin] t = false.
Proof.
  intros Hn. destruct (ign_match [ign_builtin] t) eqn:Em; [exfalso | reflexivity].
  apply builtin_under_named in Em. destruct Em as [a [b [E _]]].
  apply Hn. rewrite E. apply in_or_app. right. left. reflexivity.
Qed.

Theorem no_ignore_targets : forall f,
  ~ In (str ".goit") (comps f) ->
  ign_match [ign_builtin] f = false /\
  forall d, In d (ancestors f) ->
    ign_match [ign_builtin] d = false /\ ign_match [ign_builtin] (d ++ [c_slash]) = false.
Proof.
  intros f Hn. split; [apply builtin_needs_goit_comp; exact Hn|].
  intros d Hd. apply ancestors_In in Hd. destruct Hd as [rest Ef].
  assert (Hd : ~ In (str ".goit") (comps d)).
  { intros Hin. apply Hn. rewrite Ef. unfold comps. rewrite split_all_app_sep.
    apply in_or_app. left. exact Hin. }
  split; apply builtin_needs_goit_comp; [exact Hd|].
  unfold comps. rewrite split_all_app_sep. intros Hin. apply in_app_or in Hin.
  destruct Hin as [Hin | Hin]; [exact (Hd Hin)|].
  cbn [split_all] in Hin. destruct Hin as [E | Hin]; [discriminate E | exact Hin].
Qed.

Theorem no_ignore_not_ignored : forall w f,
  ~ In (str ".goit") (comps f) ->
  ignored w [ign_builtin] f = false /\
  forall d, In d (ancestors f) -> ignored w [ign_builtin] d = false.
Proof.
  intros w f Hn. destruct (no_ignore_targets f Hn) as [Hf Hanc]. split.
  - destruct (ignored_cases w [ign_builtin] f) as [E | E]; rewrite E; [exact Hf|].
    apply builtin_needs_goit_comp. unfold comps. rewrite split_all_app_sep.
    intros Hin. apply in_app_or in Hin. destruct Hin as [Hin | Hin]; [exact (Hn Hin)|].
    cbn [split_all] in Hin. destruct Hin as [E' | Hin]; [discriminate E' | exact Hin].
  - intros d Hd. destruct (Hanc d Hd) as [H1 H2].
    destruct (ignored_cases w [ign_builtin] d) as [E | E]; rewrite E; assumption.
Qed.

Theorem no_ignore_visible : forall w f,
  ~ In (str ".goit") (comps f) -> visible w [ign_builtin] f = true.
Proof.
  intros w f Hn. destruct (no_ignore_not_ignored w f Hn) as [Hf Hanc].
  unfold visible. apply andb_true_iff. split.
  - apply forallb_forall. intros d Hd. rewrite (Hanc d Hd). reflexivity.
  - rewrite Hf. reflexivity.
Qed.

(* ====================================================================== *)
(** * 5. `add` never stages an ignored path                                 *)
(* ====================================================================== *)

(* the iteration body of [cmd_add] for a directory argument *)
Definition add_dir_body (c : ctx) (f : bytes) : M unit :=
  w' <- getw ;; if ignored w' (x_pats c) f then ret tt else add_file f.

(* what [cmd_add] does for an argument that is not on disk (any more): a tracked path is
   unstaged; a tracked directory has every tracked path beneath it unstaged; anything else
   cannot occur after the validation *)
Definition add_unstage_one (q : bytes) : M unit :=
  w' <- getw ;; i <- of_opt (idx_delete (idx_of w') q) ;; emit (ESetIndex i).

Definition add_missing_body (w : world) (a : bytes) : M unit :=
  if tracked w a then
    i <- of_opt (idx_delete (idx_of w) a) ;; emit (ESetIndex i)
  else if is_dir (idx_of w) a then
    iterM add_unstage_one (map e_path (entries_by_dir (idx_of w) a))
  else fail.

(* [cmd_add] is literally built from [add_dir_body] and [add_missing_body] *)
Lemma cmd_add_uses_body c args :
  cmd_add c args =
  (guard (negb (is_nil args)) ;;;
   (w <- getw ;;
    guard (forallb (fun a => exists_on_disk w a || tracked w a || is_dir (idx_of w) a) args)) ;;;
   iterM (fun a =>
     w <- getw ;;
     if ignored w (x_pats c) a then ret tt
     else match wt_stat w a with
          | SNone | SNotDir => add_missing_body w a
          | SDir => iterM (add_dir_body c) (files_under w a)
          | SFile => add_file a
          end) args ;;;
   ret []).
Proof. reflexivity. Qed.

Theorem add_body_ignored : forall c w tr fl f,
  ignored w (x_pats c) f = true ->
  (w' <- getw ;; if ignored w' (x_pats c) f then ret tt else add_file f) (mkMS w tr fl)
  = (Ok tt, mkMS w tr fl).
Proof.
  intros c w tr fl f Hig. unfold bind, getw. cbn [ms_w]. rewrite Hig. reflexivity.
Qed.

(* a whole directory of ignored files: nothing happens at all *)
Theorem add_iter_all_ignored : forall c w tr fl l,
  (forall f, In f l -> ignored w (x_pats c) f = true) ->
  iterM (add_dir_body c) l (mkMS w tr fl) = (Ok tt, mkMS w tr fl).
Proof.
  intros c w tr fl l. induction l as [|f l IH]; intros Hall; [reflexivity|].
  cbn [iterM]. unfold bind at 1. unfold add_dir_body at 1.
  rewrite (add_body_ignored c w tr fl f (Hall f (or_introl eq_refl))).
  apply IH. intros g Hg. apply Hall. right. exact Hg.
Qed.

(* a top-level ignored argument is skipped as well *)
Theorem add_arg_ignored : forall c w tr fl a,
  ignored w (x_pats c) a = true ->
  (w0 <- getw ;;
   if ignored w0 (x_pats c) a then ret tt
   else match wt_stat w0 a with
        | SNone | SNotDir => add_missing_body w0 a
        | SDir => iterM (add_dir_body c) (files_under w0 a)
        | SFile => add_file a
        end) (mkMS w tr fl) = (Ok tt, mkMS w tr fl).
Proof.
  intros c w tr fl a Hig. unfold bind, getw. cbn [ms_w]. rewrite Hig. reflexivity.
Qed.

Theorem ignored_file : forall w pats f,
  wt_stat w f = SFile -> ignored w pats f = ign_match pats f.
Proof. intros w pats f Hs. unfold ignored. rewrite Hs. reflexivity. Qed.

(* anything below .goit/ is ignored whatever the disk looks like *)
Theorem ignored_goit : forall w pats rest,
  In ign_builtin pats ->
  ignored w pats (str ".goit/" ++ rest) = true.
Proof.
  intros w pats rest Hin.
  assert (H1 : ign_match pats (str ".goit/" ++ rest) = true).
  { apply (ign_match_In pats ign_builtin _ Hin). rewrite <- ign_match_single.
    apply builtin_excludes. }
  assert (H2 : ign_match pats ((str ".goit/" ++ rest) ++ [c_slash]) = true).
  { apply (ign_match_In pats ign_builtin _ Hin). rewrite <- ign_match_single, <- app_assoc.
    apply builtin_excludes. }
  destruct (ignored_cases w pats (str ".goit/" ++ rest)) as [E | E]; rewrite E; assumption.
Qed.

(* ... and the same at any depth ("sub/.goit/x") *)
Theorem ignored_goit_at : forall w pats a rest,
  In ign_builtin pats -> (a = [] \/ last a x00 = c_slash) ->
  ignored w pats (a ++ str ".goit/" ++ rest) = true.
Proof.
  intros w pats a rest Hin Ha.
  assert (H1 : ign_match pats (a ++ str ".goit/" ++ rest) = true).
  { apply (ign_match_In pats ign_builtin _ Hin). rewrite <- ign_match_single.
    apply builtin_excludes_at. exact Ha. }
  assert (H2 : ign_match pats ((a ++ str ".goit/" ++ rest) ++ [c_slash]) = true).
  { apply (ign_match_In pats ign_builtin _ Hin). rewrite <- ign_match_single.
    rewrite <- app_assoc, <- app_assoc.
    apply builtin_excludes_at. exact Ha. }
  destruct (ignored_cases w pats (a ++ str ".goit/" ++ rest)) as [E | E]; rewrite E; assumption.
Qed.

(* so `add .` (or any directory argument) can never stage a path under .goit/,
   for every pattern list [load_ctx] can produce *)
Theorem add_never_stages_goit : forall c file w tr fl rest,
  ign_load file = Some (x_pats c) ->
  add_dir_body c (str ".goit/" ++ rest) (mkMS w tr fl) = (Ok tt, mkMS w tr fl).
Proof.
  intros c file w tr fl rest Hload. unfold add_dir_body.
  apply add_body_ignored. apply ignored_goit.
  exact (ign_load_builtin file _ Hload).
Qed.

(* ====================================================================== *)
(** * 6. The three working-tree filters of `status`                         *)
(* ====================================================================== *)

Definition st_vis (w : world) (pats : list regex) : list (bytes * bytes) :=
  filter (fun kv => visible w pats (fst kv)) (w_files w).
Definition st_untracked (w : world) (pats : list regex) : list (bytes * bytes) :=
  filter (fun kv => negb (tracked w (fst kv))) (st_vis w pats).
Definition st_modified (w : world) (pats : list regex) : list (bytes * bytes) :=
  filter (fun kv => match get_entry (idx_of w) (fst kv) with
                    | Some (_, e) => negb (bytes_eqb (e_id e) (obj_id KBlob (snd kv)))
                    | None => false
                    end) (st_vis w pats).
Definition st_deleted (w : world) : list entry :=
  filter (fun e => match wt_stat w (e_path e) with SFile => false | _ => true end) (idx_of w).

(* [cmd_status] is literally built from these filters *)
Lemma cmd_status_uses_filters c :
  cmd_status c =
  (w <- getw ;;
   ns <- head_tree_nodes c ;;
   ret (map (fun d => dkind_tag (fst d) ++ snd d) (diff_with_tree (idx_of w) ns)
        ++ map (fun kv => str "modified " ++ fst kv) (st_modified w (x_pats c))
        ++ map (fun e => str "deleted " ++ e_path e) (st_deleted w)
        ++ map (fun kv => str "untracked " ++ fst kv) (st_untracked w (x_pats c)))).
Proof. reflexivity. Qed.

Theorem modified_exact : forall w pats p data,
  In (p, data) (st_modified w pats) <->
  In (p, data) (w_files w) /\ visible w pats p = true /\
  exists i e, get_entry (idx_of w) p = Some (i, e) /\ e_id e <> obj_id KBlob data.
Proof.
  intros w pats p data. unfold st_modified, st_vis. rewrite filter_In, filter_In.
  cbn [fst snd]. split.
  - intros [[Hin Hv] Hm]. split; [exact Hin|]. split; [exact Hv|].
    destruct (get_entry (idx_of w) p) as [[i e]|]; [|discriminate Hm].
    exists i, e. split; [reflexivity|].
    apply negb_true_iff in Hm. apply bytes_eqb_neq in Hm. exact Hm.
  - intros [Hin [Hv [i [e [Hg Hne]]]]]. split; [split; [exact Hin | exact Hv]|].
    rewrite Hg. apply negb_true_iff. apply bytes_eqb_neq. exact Hne.
Qed.

(* content-based: same bytes as staged => never reported modified *)
Theorem same_content_not_modified : forall w pats p data i e,
  get_entry (idx_of w) p = Some (i, e) ->
  e_id e = obj_id KBlob data ->
  ~ In (p, data) (st_modified w pats).
Proof.
  intros w pats p data i e Hg Hid Hin. apply modified_exact in Hin.
  destruct Hin as [_ [_ [i' [e' [Hg' Hne]]]]]. rewrite Hg in Hg'. injection Hg' as _ Ee.
  subst e'. exact (Hne Hid).
Qed.

(* untracked files are never reported modified *)
Theorem untracked_not_modified : forall w pats p data,
  tracked w p = false -> ~ In (p, data) (st_modified w pats).
Proof.
  intros w pats p data Ht Hin. apply modified_exact in Hin.
  destruct Hin as [_ [_ [i [e [Hg _]]]]]. unfold tracked in Ht. rewrite Hg in Ht. discriminate Ht.
Qed.

Theorem deleted_exact : forall w e,
  In e (st_deleted w) <-> In e (idx_of w) /\ wt_stat w (e_path e) <> SFile.
Proof.
  intros w e. unfold st_deleted. rewrite filter_In. split.
  - intros [Hin Hs]. split; [exact Hin|]. intros E. rewrite E in Hs. discriminate Hs.
  - intros [Hin Hs]. split; [exact Hin|].
    destruct (wt_stat w (e_path e)); [contradiction Hs; reflexivity | | |]; reflexivity.
Qed.

(* in terms of paths: exactly the staged paths with no FILE at that path *)
Theorem deleted_paths_exact : forall w p,
  In p (map e_path (st_deleted w)) <->
  (exists e, In e (idx_of w) /\ e_path e = p) /\ wt_stat w p <> SFile.
Proof.
  intros w p. rewrite in_map_iff. split.
  - intros [e [Ep Hin]]. apply deleted_exact in Hin. destruct Hin as [Hin Hs]. subst p.
    split; [exists e; split; [exact Hin | reflexivity] | exact Hs].
  - intros [[e [Hin Ep]] Hs]. exists e. split; [exact Ep|]. apply deleted_exact.
    split; [exact Hin | rewrite Ep; exact Hs].
Qed.

Theorem untracked_exact : forall w pats kv,
  In kv (st_untracked w pats) <->
  In kv (w_files w) /\ visible w pats (fst kv) = true /\ tracked w (fst kv) = false.
Proof.
  intros w pats kv. unfold st_untracked, st_vis. rewrite filter_In, filter_In, negb_true_iff.
  split.
  - intros [[Hin Hv] Ht]. split; [exact Hin | split; [exact Hv | exact Ht]].
  - intros [Hin [Hv Ht]]. split; [split; [exact Hin | exact Hv] | exact Ht].
Qed.

(* a tracked file is never hidden by its own name matching a pattern *)
Theorem tracked_file_clause : forall w pats f,
  tracked w f = true -> negb (ignored w pats f && negb (tracked w f)) = true.
Proof. intros w pats f Ht. rewrite Ht. cbn [negb]. rewrite andb_false_r. reflexivity. Qed.

(* ... nor by a directory above it: that directory holds a tracked path *)
Lemma tracked_In w f :
  tracked w f = true -> exists e, In e (idx_of w) /\ e_path e = f.
Proof.
  unfold tracked. intros Ht. destruct (get_entry (idx_of w) f) as [[i e]|] eqn:Hg; [|discriminate Ht].
  apply get_entry_sound in Hg. destruct Hg as [Hn Ep]. exists e.
  split; [exact (nth_error_In _ _ Hn) | exact Ep].
Qed.

Theorem tracked_visible : forall w pats f,
  tracked w f = true -> last f x00 <> c_slash -> visible w pats f = true.
Proof.
  intros w pats f Ht Hlast. unfold visible. apply andb_true_iff.
  split; [|apply tracked_file_clause; exact Ht].
  apply forallb_forall. intros d Hd.
  assert (Hdir : is_dir (idx_of w) d = true).
  { apply is_dir_iff. destruct (tracked_In w f Ht) as [e [Hin Ep]]. exists e.
    split; [exact Hin|]. rewrite Ep.
    apply ancestors_In in Hd. destruct Hd as [rest Ef].
    destruct (bytes_eq_dec d [x2e]) as [Ed | Ed].
    - subst d. apply under_dir_dot. rewrite Ef. discriminate.
    - apply (under_dir_spec d f Ed). exists rest. split; [|exact Ef].
      intros Er. subst rest. apply Hlast. rewrite Ef.
      apply last_last. }
  rewrite Hdir. cbn [negb]. rewrite andb_false_r. reflexivity.
Qed.

(* hence every tracked file on disk is examined by `status`: it is in the
   visible list, and is reported modified exactly when its content differs *)
Corollary tracked_modified_iff : forall w pats p data i e,
  In (p, data) (w_files w) -> last p x00 <> c_slash ->
  get_entry (idx_of w) p = Some (i, e) ->
  (In (p, data) (st_modified w pats) <-> e_id e <> obj_id KBlob data).
Proof.
  intros w pats p data i e Hin Hl Hg. rewrite modified_exact. split.
  - intros [_ [_ [i' [e' [Hg' Hne]]]]]. rewrite Hg in Hg'. injection Hg' as _ Ee. subst e'. exact Hne.
  - intros Hne. split; [exact Hin|]. split.
    + apply tracked_visible; [|exact Hl]. unfold tracked. rewrite Hg. reflexivity.
    + exists i, e. split; [exact Hg | exact Hne].
Qed.

(* ====================================================================== *)
(** * 7. Examples                                                           *)
(* ====================================================================== *)

(* .goitignore = "out/\n*.log\n" *)
Definition ex_file : bytes := str "out/" ++ [c_nl] ++ str "*.log" ++ [c_nl].

Definition ex_match (t : bytes) : option bool :=
  match ign_load (Some ex_file) with
  | Some pats => Some (ign_match pats t)
  | None => None
  end.

Example ex_loads :
  ign_load (Some ex_file) =
  Some [ign_builtin;
        lit_then (str "out/") (RStar RAny);
        RCat (RStar RAny) (RCat (RChar x2e) (lit_then (str "log") REps))].
Proof. vm_compute. reflexivity. Qed.

Example ex_matched :
  map ex_match [str "out/x"; str "src/out/c"; str "a.log"; str "d/a.log"; str ".goit/HEAD";
                str "out/"; str "out/deep/er/f"]
  = [Some true; Some true; Some true; Some true; Some true; Some true; Some true].
Proof. vm_compute. reflexivity. Qed.

Example ex_not_matched :
  map ex_match [str "about/b"; str "layout/d"; str "a.logx"; str "x.goit/f";
                str "out"; str "outx/f"; str "alog"; str "log"]
  = [Some false; Some false; Some false; Some false;
     Some false; Some false; Some false; Some false].
Proof. vm_compute. reflexivity. Qed.

(* '.' in a DIRECTORY entry is the regexp "any character" (hence the
   restriction of [dir_entry_spec] to dot-free names); in a FILE entry it is
   literal *)
Example dot_in_dir_entry_is_any :
  match ign_line (str "a.b/") with
  | Some r => (boundary_match r true (str "a.b/f"), boundary_match r true (str "axb/f"))
  | None => (false, false)
  end = (true, true).
Proof. vm_compute. reflexivity. Qed.

(* ... any character at all: with the `s` flag also a newline *)
Example dot_in_dir_entry_matches_newline :
  match ign_line (str "a.b/") with
  | Some r => boundary_match r true (str "a" ++ [c_nl] ++ str "b/f")
  | None => false
  end = true.
Proof. vm_compute. reflexivity. Qed.

Example dot_in_file_entry_is_literal :
  match ign_line (str "*.log") with
  | Some r => (boundary_match r true (str "a.log"), boundary_match r true (str "axlog"))
  | None => (false, false)
  end = (true, false).
Proof. vm_compute. reflexivity. Qed.

(* a name containing a newline does not escape: with the `s` flag '.' matches \n *)
Example newline_no_longer_escapes_ext :
  map ex_match [str "a" ++ [c_nl] ++ str ".log"; str "out/a" ++ [c_nl] ++ str "b";
                str ".goit/a" ++ [c_nl] ++ str "b"]
  = [Some true; Some true; Some true].
Proof. vm_compute. reflexivity. Qed.

(* the one place where a newline still matters is not a path but the file
   .goitignore itself: it is split into lines, so no entry contains '\n' and a
   name such as "a\nb/" can only be excluded through another entry *)
Example entries_are_lines :
  ign_load (Some (str "a" ++ [c_nl] ++ str "b/" ++ [c_nl])) =
  match ign_line (str "a"), ign_line (str "b/") with
  | Some r1, Some r2 => Some [ign_builtin; r1; r2]
  | _, _ => None
  end.
Proof. vm_compute. reflexivity. Qed.

(* F55: an empty line is not an entry.  "*.log\n\nout/\n" loads exactly as
   "*.log\nout/\n" does (also with CRLF line ends) *)
Definition ex_blank_file : bytes := str "*.log" ++ [c_nl] ++ [c_nl] ++ str "out/" ++ [c_nl].
Definition ex_noblank_file : bytes := str "*.log" ++ [c_nl] ++ str "out/" ++ [c_nl].

Example blank_line_skipped :
  ign_load (Some ex_blank_file) = ign_load (Some ex_noblank_file) /\
  ign_load (Some ex_blank_file) =
  Some [ign_builtin;
        RCat (RStar RAny) (RCat (RChar x2e) (lit_then (str "log") REps));
        lit_then (str "out/") (RStar RAny)] /\
  ign_load (Some (str "*.log" ++ [c_cr; c_nl] ++ [c_cr; c_nl] ++ str "out/" ++ [c_cr; c_nl]))
  = ign_load (Some ex_noblank_file).
Proof. repeat split; vm_compute; reflexivity. Qed.

(* the former misbehaviour, gone: with the blank line every directory target
   "d/" was matched (by the empty pattern the blank line became), so status hid
   every untracked directory and `add .` staged nothing beneath any directory.
   Now "d/" is matched only if an entry says so *)
Example blank_line_hides_no_directory :
  match ign_load (Some (str "*.log" ++ [c_nl] ++ [c_nl])) with
  | Some pats => map (ign_match pats) [str "d/"; str "src/deep/"; str "d/f"; str "d/a.log"; str ".goit/"]
  | None => []
  end = [false; false; false; true; true].
Proof. vm_compute. reflexivity. Qed.

(* what the pre-repair loader produced for that file (the empty line as the
   empty pattern) did match every directory target *)
Example blank_line_formerly_hid_every_directory :
  match ign_line (str "*.log"), ign_line [] with
  | Some r1, Some r2 => map (ign_match [ign_builtin; r1; r2]) [str "d/"; str "src/deep/"; str "d/f"]
  | _, _ => []
  end = [true; true; false].
Proof. vm_compute. reflexivity. Qed.

(* a line of blanks only is NOT skipped (Goit does not trim ignore lines): it is
   the entry " ", which hides a file or directory whose name ends in a blank *)
Example blanks_only_line_is_an_entry :
  ign_load (Some (str " " ++ [c_nl])) = Some [ign_builtin; lit_then (str " ") REps] /\
  ign_load (Some (str " " ++ [c_nl])) <> ign_load (Some [c_nl]).
Proof. split; [vm_compute; reflexivity | vm_compute; discriminate]. Qed.

(* the single entries on their own *)
Example out_entry_alone :
  match ign_line (str "out/") with
  | Some r => map (boundary_match r true) [str "out/x"; str "src/out/c"; str "about/b"; str "layout/d"; str "out"]
  | None => []
  end = [true; true; false; false; false].
Proof. vm_compute. reflexivity. Qed.

Example log_entry_alone :
  match ign_line (str "*.log") with
  | Some r => map (boundary_match r true) [str "a.log"; str "d/a.log"; str "a.logx"; str "alog"]
  | None => []
  end = [true; true; false; false].
Proof. vm_compute. reflexivity. Qed.

(* lines outside the modelled alphabet are rejected, not guessed *)
Example unmodelled_line : ign_line (str "a[b") = None /\ ign_line (str "d*/") = None.
Proof. vm_compute. split; reflexivity. Qed.

(* the side condition of [tracked_visible]: an (ill-formed) staged path "d/"
   is not *under* "d" ([under_dir] wants something after the '/'), so an
   entry "d" hides it *)
Example tracked_visible_needs_clean_path :
  let w := mkW true [] [] (Some [mkE [] (str "d/")]) [] false None [] CfgAbsent CfgAbsent [] [] in
  match ign_line (str "d") with
  | Some r => (tracked w (str "d/"), visible w [ign_builtin; r] (str "d/"))
  | None => (false, true)
  end = (true, false).
Proof. vm_compute. reflexivity. Qed.

Print Assumptions boundary_match_spec.
Print Assumptions builtin_excludes.
Print Assumptions builtin_only.
Print Assumptions dir_entry_spec.
Print Assumptions dir_entry_under_named.
Print Assumptions ext_entry_spec.
Print Assumptions ext_entry_has_ext.
Print Assumptions builtin_under_named_iff.
Print Assumptions no_ignore_visible.
Print Assumptions add_body_ignored.
Print Assumptions add_iter_all_ignored.
Print Assumptions add_never_stages_goit.
Print Assumptions ignored_goit_at.
Print Assumptions modified_exact.
Print Assumptions same_content_not_modified.
Print Assumptions deleted_paths_exact.
Print Assumptions untracked_exact.
Print Assumptions tracked_visible.
Print Assumptions tracked_modified_iff.
Print Assumptions blank_lines_change_nothing.
Print Assumptions ign_lines_nonempty.
Print Assumptions blank_line_bytes_change_nothing.
Print Assumptions blank_crlf_line_bytes_change_nothing.
Print Assumptions blank_first_line_changes_nothing.
Print Assumptions only_blank_lines_load_builtin.
Print Assumptions empty_pattern_matches_every_dir.
Print Assumptions blank_line_skipped.
Print Assumptions blank_line_hides_no_directory.
