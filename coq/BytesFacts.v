(* BytesFacts.v — facts about the definitions of Bytes.v. *)
From Coq Require Import Strings.Byte.
From Coq Require Import List Bool NArith ZArith Arith.
From Coq Require Import Lia ZifyBool ZifyNat ZifyN.
From Goit Require Import Bytes.
Import ListNotations.
Local Open Scope N_scope.

#[local] Ltac Zify.zify_post_hook ::= Z.div_mod_to_equations.

(* ------------------------------------------------------------------ *)
(** * Bytes as numbers *)

Lemma beqb_eq : forall a b : byte, beqb a b = true <-> a = b.
Proof.
  intros a b. unfold beqb. split.
  - apply Byte.byte_dec_bl.
  - intro Hab. apply Byte.byte_dec_lb. exact Hab.
Qed.

Lemma beqb_refl : forall a : byte, beqb a a = true.
Proof. intro a. apply beqb_eq. reflexivity. Qed.

Lemma beqb_neq : forall a b : byte, beqb a b = false <-> a <> b.
Proof.
  intros a b. split.
  - intros Hf Hab. apply beqb_eq in Hab. rewrite Hab in Hf. discriminate Hf.
  - intro Hab. destruct (beqb a b) eqn:E.
    + apply beqb_eq in E. contradiction.
    + reflexivity.
Qed.

Lemma beqb_sym : forall a b : byte, beqb a b = beqb b a.
Proof.
  intros a b. destruct (beqb b a) eqn:E.
  - apply beqb_eq in E. apply beqb_eq. symmetry. exact E.
  - apply beqb_neq in E. apply beqb_neq. intro Hab. apply E. symmetry. exact Hab.
Qed.

Lemma bN_bounded : forall b : byte, bN b < 256.
Proof.
  intro b. unfold bN. pose proof (Byte.to_N_bounded b) as Hb. lia.
Qed.

Lemma bN_inj : forall a b : byte, bN a = bN b -> a = b.
Proof.
  intros a b Hab. unfold bN in Hab.
  pose proof (Byte.of_to_N a) as Ha. pose proof (Byte.of_to_N b) as Hb.
  rewrite Hab in Ha. rewrite Ha in Hb. injection Hb as Hb. exact Hb.
Qed.

Lemma bN_Nb : forall n : N, n < 256 -> bN (Nb n) = n.
Proof.
  intros n Hn. unfold Nb, bN. destruct (Byte.of_N n) as [b|] eqn:E.
  - apply Byte.to_of_N. exact E.
  - apply Byte.of_N_None_iff in E. lia.
Qed.

Lemma Nb_bN : forall b : byte, Nb (bN b) = b.
Proof.
  intro b. unfold Nb, bN. rewrite Byte.of_to_N. reflexivity.
Qed.

(* ------------------------------------------------------------------ *)
(** * 1. Equality of byte strings *)

Lemma bytes_eqb_eq : forall a b : bytes, bytes_eqb a b = true <-> a = b.
Proof.
  intro a. induction a as [|x a' IH]; intros b; destruct b as [|y b']; cbn [bytes_eqb].
  - split; reflexivity.
  - split; intro H; discriminate H.
  - split; intro H; discriminate H.
  - rewrite andb_true_iff, beqb_eq, IH. split.
    + intros [Hxy Hab]. subst. reflexivity.
    + intro H. injection H as Hxy Hab. split; assumption.
Qed.

Lemma bytes_eqb_refl : forall a : bytes, bytes_eqb a a = true.
Proof. intro a. apply bytes_eqb_eq. reflexivity. Qed.

Lemma bytes_eqb_neq : forall a b : bytes, bytes_eqb a b = false <-> a <> b.
Proof.
  intros a b. split.
  - intros Hf Hab. apply bytes_eqb_eq in Hab. rewrite Hab in Hf. discriminate Hf.
  - intro Hab. destruct (bytes_eqb a b) eqn:E.
    + apply bytes_eqb_eq in E. contradiction.
    + reflexivity.
Qed.

Lemma bytes_eqb_sym : forall a b : bytes, bytes_eqb a b = bytes_eqb b a.
Proof.
  intros a b. destruct (bytes_eqb b a) eqn:E.
  - apply bytes_eqb_eq in E. apply bytes_eqb_eq. symmetry. exact E.
  - apply bytes_eqb_neq in E. apply bytes_eqb_neq. intro Hab. apply E. symmetry. exact Hab.
Qed.

Lemma bytes_eq_dec : forall a b : bytes, {a = b} + {a <> b}.
Proof.
  intros a b. destruct (bytes_eqb a b) eqn:E.
  - left. apply bytes_eqb_eq. exact E.
  - right. apply bytes_eqb_neq. exact E.
Qed.

(* ------------------------------------------------------------------ *)
(** * 2. [blt] is a strict total order *)

Lemma blt_cons : forall x a y b,
  blt (x :: a) (y :: b) =
  if N.ltb (bN x) (bN y) then true
  else if N.ltb (bN y) (bN x) then false else blt a b.
Proof. reflexivity. Qed.

Lemma blt_irrefl : forall a : bytes, blt a a = false.
Proof.
  intro a. induction a as [|x a' IH].
  - reflexivity.
  - rewrite blt_cons. rewrite N.ltb_irrefl. exact IH.
Qed.

Lemma blt_trans : forall a b c : bytes,
  blt a b = true -> blt b c = true -> blt a c = true.
Proof.
  intro a. induction a as [|x a' IH]; intros b c Hab Hbc.
  - destruct b as [|y b']; [discriminate Hab|].
    destruct c as [|z c']; [discriminate Hbc|]. reflexivity.
  - destruct b as [|y b']; [discriminate Hab|].
    destruct c as [|z c']; [discriminate Hbc|].
    rewrite blt_cons in Hab, Hbc. rewrite blt_cons.
    destruct (N.ltb (bN x) (bN y)) eqn:Exy.
    + destruct (N.ltb (bN y) (bN z)) eqn:Eyz.
      * assert (Hxz : N.ltb (bN x) (bN z) = true) by lia.
        rewrite Hxz. reflexivity.
      * destruct (N.ltb (bN z) (bN y)) eqn:Ezy; [discriminate Hbc|].
        assert (Hxz : N.ltb (bN x) (bN z) = true) by lia.
        rewrite Hxz. reflexivity.
    + destruct (N.ltb (bN y) (bN x)) eqn:Eyx; [discriminate Hab|].
      destruct (N.ltb (bN y) (bN z)) eqn:Eyz.
      * assert (Hxz : N.ltb (bN x) (bN z) = true) by lia.
        rewrite Hxz. reflexivity.
      * destruct (N.ltb (bN z) (bN y)) eqn:Ezy; [discriminate Hbc|].
        assert (Hxz : N.ltb (bN x) (bN z) = false) by lia.
        assert (Hzx : N.ltb (bN z) (bN x) = false) by lia.
        rewrite Hxz, Hzx. apply (IH b' c' Hab Hbc).
Qed.

Lemma blt_asym : forall a b : bytes, blt a b = true -> blt b a = false.
Proof.
  intros a b Hab. destruct (blt b a) eqn:Hba.
  - pose proof (blt_trans a b a Hab Hba) as Haa.
    rewrite blt_irrefl in Haa. discriminate Haa.
  - reflexivity.
Qed.

Lemma blt_total : forall a b : bytes, blt a b = true \/ a = b \/ blt b a = true.
Proof.
  intro a. induction a as [|x a' IH]; intros b; destruct b as [|y b'].
  - right. left. reflexivity.
  - left. reflexivity.
  - right. right. reflexivity.
  - rewrite !blt_cons.
    destruct (N.ltb (bN x) (bN y)) eqn:Exy; [left; reflexivity|].
    destruct (N.ltb (bN y) (bN x)) eqn:Eyx; [right; right; reflexivity|].
    assert (Hxy : x = y) by (apply bN_inj; lia).
    subst y. destruct (IH b') as [Hlt | [Heq | Hgt]].
    + left. exact Hlt.
    + right. left. subst b'. reflexivity.
    + right. right. exact Hgt.
Qed.

Lemma blt_neq : forall a b : bytes, blt a b = true -> a <> b.
Proof.
  intros a b Hab Heq. subst b. rewrite blt_irrefl in Hab. discriminate Hab.
Qed.

(* ------------------------------------------------------------------ *)
(** * 8. Prefixes (placed early: used below) *)

Lemma is_prefix_app : forall p s : bytes, is_prefix p (p ++ s) = true.
Proof.
  intros p s. induction p as [|x p' IH].
  - reflexivity.
  - cbn [app is_prefix]. rewrite beqb_refl. exact IH.
Qed.

Lemma is_prefix_spec : forall p s : bytes,
  is_prefix p s = true <-> exists t, s = p ++ t.
Proof.
  intro p. induction p as [|x p' IH]; intros s.
  - split.
    + intros _. exists s. reflexivity.
    + intros _. reflexivity.
  - destruct s as [|y s'].
    + split.
      * intro H. discriminate H.
      * intros [t Ht]. discriminate Ht.
    + cbn [is_prefix]. rewrite andb_true_iff, beqb_eq, IH. split.
      * intros [Hxy [t Ht]]. exists t. subst. reflexivity.
      * intros [t Ht]. cbn [app] in Ht. injection Ht as Hyx Hs.
        split; [symmetry; exact Hyx | exists t; exact Hs].
Qed.

Lemma is_prefix_nil : forall s : bytes, is_prefix [] s = true.
Proof. intro s. destruct s; reflexivity. Qed.

Lemma is_prefix_head_neq : forall c p x s,
  x <> c -> is_prefix (c :: p) (x :: s) = false.
Proof.
  intros c p x s Hxc. cbn [is_prefix].
  assert (Hb : beqb c x = false).
  { apply beqb_neq. intro Hcx. apply Hxc. symmetry. exact Hcx. }
  rewrite Hb. reflexivity.
Qed.

(* ------------------------------------------------------------------ *)
(** * 3. Decimal *)

Lemma is_digit_iff : forall c : byte, is_digit c = true <-> 48 <= bN c <= 57.
Proof. intro c. unfold is_digit. lia. Qed.

Lemma bN_digit_of : forall d : N, d < 10 -> bN (digit_of d) = 48 + d.
Proof. intros d Hd. unfold digit_of. apply bN_Nb. lia. Qed.

Lemma is_digit_digit_of : forall d : N, d < 10 -> is_digit (digit_of d) = true.
Proof.
  intros d Hd. apply is_digit_iff. rewrite (bN_digit_of d Hd). lia.
Qed.

Lemma digit_val_digit_of : forall d : N, d < 10 -> digit_val (digit_of d) = d.
Proof.
  intros d Hd. unfold digit_val. rewrite (bN_digit_of d Hd). lia.
Qed.

Lemma digit_of_digit_val : forall c : byte, is_digit c = true -> digit_of (digit_val c) = c.
Proof.
  intros c Hc. apply is_digit_iff in Hc. apply bN_inj.
  unfold digit_val. rewrite bN_digit_of by lia. lia.
Qed.

Lemma mod10_lt : forall n : N, n mod 10 < 10.
Proof. intro n. lia. Qed.

Lemma dec_aux_S : forall f n acc,
  dec_aux (S f) n acc =
  if N.ltb n 10 then digit_of (n mod 10) :: acc
  else dec_aux f (n / 10) (digit_of (n mod 10) :: acc).
Proof. reflexivity. Qed.

Lemma dec_aux_all_digits : forall f n acc,
  all_digits acc = true -> all_digits (dec_aux f n acc) = true.
Proof.
  intro f. induction f as [|f IH]; intros n acc Hacc.
  - exact Hacc.
  - rewrite dec_aux_S.
    assert (Hacc' : all_digits (digit_of (n mod 10) :: acc) = true).
    { unfold all_digits in *. cbn [forallb].
      rewrite (is_digit_digit_of _ (mod10_lt n)). exact Hacc. }
    destruct (N.ltb n 10) eqn:E.
    + exact Hacc'.
    + apply IH. exact Hacc'.
Qed.

Lemma dec_aux_length : forall f n acc,
  (length acc <= length (dec_aux f n acc))%nat.
Proof.
  intro f. induction f as [|f IH]; intros n acc.
  - cbn [dec_aux]. lia.
  - rewrite dec_aux_S. destruct (N.ltb n 10) eqn:E.
    + cbn [length]. lia.
    + pose proof (IH (n / 10) (digit_of (n mod 10) :: acc)) as Hl.
      cbn [length] in Hl. lia.
Qed.

Definition dstep (acc : N) (d : byte) : N := acc * 10 + digit_val d.

Lemma digits_val_fold : forall s, digits_val s = fold_left dstep s 0.
Proof. reflexivity. Qed.

Lemma dec_aux_val : forall f n acc,
  n < 2 ^ N.of_nat f ->
  fold_left dstep (dec_aux (S f) n acc) 0 = fold_left dstep acc n.
Proof.
  intro f. induction f as [|f IH]; intros n acc Hn.
  - change (2 ^ N.of_nat 0) with 1 in Hn.
    assert (Hn0 : n = 0) by lia. subst n. reflexivity.
  - rewrite dec_aux_S.
    assert (Hstep : fold_left dstep (digit_of (n mod 10) :: acc) (n / 10)
                    = fold_left dstep acc n).
    { cbn [fold_left]. unfold dstep at 2.
      rewrite (digit_val_digit_of _ (mod10_lt n)).
      f_equal. lia. }
    destruct (N.ltb n 10) eqn:E.
    + rewrite <- Hstep. cbn [fold_left].
      assert (Hq : n / 10 = 0) by lia. rewrite Hq. reflexivity.
    + rewrite IH.
      * exact Hstep.
      * rewrite Nat2N.inj_succ, N.pow_succ_r' in Hn.
        remember (2 ^ N.of_nat f) as P eqn:HP. clear HP IH Hstep. lia.
Qed.

Lemma size_nat_size : forall n : N, N.of_nat (N.size_nat n) = N.size n.
Proof.
  intro n. destruct n as [|p].
  - reflexivity.
  - cbn [N.size_nat N.size].
    induction p as [p IH|p IH|].
    + cbn [Pos.size_nat Pos.size]. rewrite Nat2N.inj_succ, IH. reflexivity.
    + cbn [Pos.size_nat Pos.size]. rewrite Nat2N.inj_succ, IH. reflexivity.
    + reflexivity.
Qed.

Lemma dec_fuel : forall n : N, n < 2 ^ N.of_nat (N.size_nat n).
Proof. intro n. rewrite size_nat_size. apply N.size_gt. Qed.

Lemma digits_val_dec : forall n : N, digits_val (dec n) = n.
Proof.
  intro n. rewrite digits_val_fold. unfold dec.
  rewrite (dec_aux_val _ n [] (dec_fuel n)). reflexivity.
Qed.

Lemma dec_all_digits : forall n : N, all_digits (dec n) = true.
Proof. intro n. unfold dec. apply dec_aux_all_digits. reflexivity. Qed.

Lemma dec_nonempty : forall n : N, dec n <> [].
Proof.
  intros n Hnil. unfold dec in Hnil. rewrite dec_aux_S in Hnil.
  destruct (N.ltb n 10) eqn:E.
  - discriminate Hnil.
  - pose proof (dec_aux_length (N.size_nat n) (n / 10) [digit_of (n mod 10)]) as Hl.
    rewrite Hnil in Hl. cbn [length] in Hl. lia.
Qed.

Lemma parse_dec_dec : forall n : N, parse_dec (dec n) = Some n.
Proof.
  intro n. unfold parse_dec.
  pose proof (dec_nonempty n) as Hne.
  destruct (dec n) as [|c r] eqn:E.
  - contradiction Hne. reflexivity.
  - rewrite <- E. rewrite dec_all_digits, digits_val_dec. reflexivity.
Qed.

Lemma dec_inj : forall a b : N, dec a = dec b -> a = b.
Proof.
  intros a b Hab. rewrite <- (digits_val_dec a), <- (digits_val_dec b), Hab.
  reflexivity.
Qed.

Lemma dec_digit_in : forall n c, In c (dec n) -> is_digit c = true.
Proof.
  intros n c Hin. pose proof (dec_all_digits n) as Hall.
  unfold all_digits in Hall. rewrite forallb_forall in Hall.
  apply Hall. exact Hin.
Qed.

Lemma dec_no_byte : forall n c, is_digit c = false -> ~ In c (dec n).
Proof.
  intros n c Hc Hin. rewrite (dec_digit_in n c Hin) in Hc. discriminate Hc.
Qed.

Lemma dec_head_digit : forall n, exists c r, dec n = c :: r /\ is_digit c = true.
Proof.
  intro n. pose proof (dec_nonempty n) as Hne.
  pose proof (dec_digit_in n) as Hin.
  destruct (dec n) as [|c r].
  - contradiction Hne. reflexivity.
  - exists c, r. split; [reflexivity|]. apply Hin. left. reflexivity.
Qed.

Lemma span_digits_app : forall l r : bytes,
  all_digits l = true ->
  (match r with c :: _ => is_digit c = false | [] => True end) ->
  span_digits (l ++ r) = (l, r).
Proof.
  intro l. induction l as [|x l' IH]; intros r Hl Hr.
  - cbn [app]. destruct r as [|c r'].
    + reflexivity.
    + cbn [span_digits]. rewrite Hr. reflexivity.
  - unfold all_digits in Hl. cbn [forallb] in Hl.
    apply andb_true_iff in Hl. destruct Hl as [Hx Hl'].
    cbn [app span_digits]. rewrite Hx. rewrite (IH r Hl' Hr). reflexivity.
Qed.

Lemma span_digits_dec : forall n r,
  (match r with c :: _ => is_digit c = false | [] => True end) ->
  span_digits (dec n ++ r) = (dec n, r).
Proof.
  intros n r Hr. apply span_digits_app; [apply dec_all_digits | exact Hr].
Qed.

Lemma span_digits_dec_nil : forall n, span_digits (dec n) = (dec n, []).
Proof.
  intro n. pose proof (span_digits_dec n [] I) as H.
  rewrite app_nil_r in H. exact H.
Qed.

(* ------------------------------------------------------------------ *)
(** * 4. Hexadecimal *)

Lemma unhex_hex_hi : forall c : byte,
  unhex_digit (hex_digit (bN c / 16)) = Some (bN c / 16).
Proof. intro c. destruct c; vm_compute; reflexivity. Qed.

Lemma unhex_hex_lo : forall c : byte,
  unhex_digit (hex_digit (bN c mod 16)) = Some (bN c mod 16).
Proof. intro c. destruct c; vm_compute; reflexivity. Qed.

Lemma Nb_hi_lo : forall c : byte, Nb (16 * (bN c / 16) + bN c mod 16) = c.
Proof.
  intro c. assert (H : 16 * (bN c / 16) + bN c mod 16 = bN c) by lia.
  rewrite H. apply Nb_bN.
Qed.

Lemma hex_cons : forall c r,
  hex (c :: r) = hex_digit (bN c / 16) :: hex_digit (bN c mod 16) :: hex r.
Proof. reflexivity. Qed.

Lemma unhex_cons2 : forall a b r,
  unhex (a :: b :: r) =
  match unhex_digit a, unhex_digit b, unhex r with
  | Some x, Some y, Some t => Some (Nb (16 * x + y) :: t)
  | _, _, _ => None
  end.
Proof. reflexivity. Qed.

Lemma unhex_hex : forall b : bytes, unhex (hex b) = Some b.
Proof.
  intro b. induction b as [|c r IH].
  - reflexivity.
  - rewrite hex_cons, unhex_cons2, unhex_hex_hi, unhex_hex_lo, IH, Nb_hi_lo.
    reflexivity.
Qed.

Lemma hex_length : forall b : bytes, length (hex b) = (2 * length b)%nat.
Proof.
  intro b. induction b as [|c r IH].
  - reflexivity.
  - rewrite hex_cons. cbn [length]. rewrite IH. lia.
Qed.

Lemma is_lower_hex_hi : forall c : byte, is_lower_hex (hex_digit (bN c / 16)) = true.
Proof. intro c. destruct c; vm_compute; reflexivity. Qed.

Lemma is_lower_hex_lo : forall c : byte, is_lower_hex (hex_digit (bN c mod 16)) = true.
Proof. intro c. destruct c; vm_compute; reflexivity. Qed.

Lemma hex_lower : forall b : bytes, forallb is_lower_hex (hex b) = true.
Proof.
  intro b. induction b as [|c r IH].
  - reflexivity.
  - rewrite hex_cons. cbn [forallb].
    rewrite is_lower_hex_hi, is_lower_hex_lo, IH. reflexivity.
Qed.

Lemma hex_inj : forall a b : bytes, hex a = hex b -> a = b.
Proof.
  intros a b Hab. pose proof (unhex_hex a) as Ha. rewrite Hab, unhex_hex in Ha.
  injection Ha as Ha. symmetry. exact Ha.
Qed.

Lemma hex_app : forall a b : bytes, hex (a ++ b) = hex a ++ hex b.
Proof.
  intros a b. induction a as [|c r IH].
  - reflexivity.
  - cbn [app]. rewrite !hex_cons, IH. reflexivity.
Qed.

(* ------------------------------------------------------------------ *)
(** * 5. Splitting *)

Lemma split1_cons : forall sep c r,
  split1 sep (c :: r) =
  if beqb c sep then ([], Some r)
  else let '(a, b) := split1 sep r in (c :: a, b).
Proof. reflexivity. Qed.

Lemma split1_app_sep : forall sep a b,
  ~ In sep a -> split1 sep (a ++ sep :: b) = (a, Some b).
Proof.
  intros sep a b. induction a as [|x a' IH]; intro Hnin.
  - cbn [app]. rewrite split1_cons, beqb_refl. reflexivity.
  - cbn [app]. rewrite split1_cons.
    assert (Hx : beqb x sep = false).
    { apply beqb_neq. intro Hxs. apply Hnin. left. exact Hxs. }
    rewrite Hx, IH.
    + reflexivity.
    + intro Hin. apply Hnin. right. exact Hin.
Qed.

Lemma split1_none : forall sep a, ~ In sep a -> split1 sep a = (a, None).
Proof.
  intros sep a. induction a as [|x a' IH]; intro Hnin.
  - reflexivity.
  - rewrite split1_cons.
    assert (Hx : beqb x sep = false).
    { apply beqb_neq. intro Hxs. apply Hnin. left. exact Hxs. }
    rewrite Hx, IH.
    + reflexivity.
    + intro Hin. apply Hnin. right. exact Hin.
Qed.

Lemma split1_inv : forall sep s a ob,
  split1 sep s = (a, ob) ->
  ~ In sep a /\
  match ob with
  | Some b => s = a ++ sep :: b
  | None => s = a
  end.
Proof.
  intros sep s. induction s as [|x s' IH]; intros a ob Hs.
  - cbn [split1] in Hs. injection Hs as Ha Hob. subst a ob.
    split; [intros []|reflexivity].
  - rewrite split1_cons in Hs. destruct (beqb x sep) eqn:Ex.
    + apply beqb_eq in Ex. injection Hs as Ha Hob. subst a ob x.
      split; [intros []|reflexivity].
    + apply beqb_neq in Ex.
      destruct (split1 sep s') as [a' ob'] eqn:Es'.
      injection Hs as Ha Hob. subst a ob.
      destruct (IH a' ob' eq_refl) as [Hnin Hsh]. split.
      * intros [Hxs | Hin]; [apply Ex; exact Hxs | apply Hnin; exact Hin].
      * destruct ob' as [b|]; cbn [app]; rewrite Hsh; reflexivity.
Qed.

Lemma split1_inv_some : forall sep s a b,
  split1 sep s = (a, Some b) -> s = a ++ sep :: b /\ ~ In sep a.
Proof.
  intros sep s a b Hs. destruct (split1_inv sep s a (Some b) Hs) as [Hnin Hsh].
  split; assumption.
Qed.

Lemma split1_inv_none : forall sep s a,
  split1 sep s = (a, None) -> s = a /\ ~ In sep a.
Proof.
  intros sep s a Hs. destruct (split1_inv sep s a None Hs) as [Hnin Hsh].
  split; assumption.
Qed.

Lemma split1s_eq : forall sep s,
  split1s sep s =
  if is_prefix sep s then ([], Some (skipn (length sep) s))
  else match s with
       | [] => ([], None)
       | c :: r => let '(a, b) := split1s sep r in (c :: a, b)
       end.
Proof. intros sep s. destruct s; reflexivity. Qed.

Lemma skipn_length_app : forall (p s : bytes), skipn (length p) (p ++ s) = s.
Proof.
  intros p s. induction p as [|x p' IH].
  - reflexivity.
  - cbn [length app skipn]. exact IH.
Qed.

Lemma split1s_app : forall sep a b,
  sep <> [] ->
  (forall k, (k < length a)%nat -> is_prefix sep (skipn k (a ++ sep ++ b)) = false) ->
  split1s sep (a ++ sep ++ b) = (a, Some b).
Proof.
  intros sep a b Hsep. induction a as [|x a' IH]; intro Hk.
  - cbn [app]. rewrite split1s_eq, is_prefix_app, skipn_length_app. reflexivity.
  - rewrite split1s_eq.
    assert (H0 : is_prefix sep ((x :: a') ++ sep ++ b) = false).
    { apply (Hk 0%nat). cbn [length]. lia. }
    rewrite H0. cbn [app]. rewrite IH.
    + reflexivity.
    + intros k Hlt. apply (Hk (S k)). cbn [length]. lia.
Qed.

Lemma split1s_app_nofirst : forall c sep' a b,
  ~ In c a -> split1s (c :: sep') (a ++ (c :: sep') ++ b) = (a, Some b).
Proof.
  intros c sep' a b. induction a as [|x a' IH]; intro Hnin.
  - cbn [app]. rewrite split1s_eq.
    change (c :: sep' ++ b) with ((c :: sep') ++ b).
    rewrite is_prefix_app, skipn_length_app. reflexivity.
  - rewrite split1s_eq.
    change ((x :: a') ++ (c :: sep') ++ b) with (x :: (a' ++ (c :: sep') ++ b)).
    rewrite is_prefix_head_neq.
    + rewrite IH.
      * reflexivity.
      * intro Hin. apply Hnin. right. exact Hin.
    + intro Hxc. apply Hnin. left. exact Hxc.
Qed.

(* ------------------------------------------------------------------ *)
(** * 6. Big endian *)

Lemma be16_length : forall n, length (be16 n) = 2%nat.
Proof. reflexivity. Qed.

Lemma be32_length : forall n, length (be32 n) = 4%nat.
Proof. reflexivity. Qed.

Lemma mod256_lt : forall n : N, n mod 256 < 256.
Proof. intro n. lia. Qed.

Lemma unbe_be16 : forall n, n < 65536 -> unbe (be16 n) = n.
Proof.
  intros n Hn. unfold unbe, be16. cbn [fold_left].
  rewrite !(bN_Nb _ (mod256_lt _)). lia.
Qed.

Lemma unbe_be32 : forall n, n < 4294967296 -> unbe (be32 n) = n.
Proof.
  intros n Hn. unfold unbe, be32. cbn [fold_left].
  rewrite !(bN_Nb _ (mod256_lt _)). lia.
Qed.

(* ------------------------------------------------------------------ *)
(** * 7. [scan_lines] *)

Lemma drop_cr_id : forall l : bytes,
  (l = [] \/ last l x00 <> c_cr) -> drop_cr l = l.
Proof.
  intros l Hl. unfold drop_cr. destruct (rev l) as [|c r] eqn:E.
  - reflexivity.
  - assert (Hlr : l = rev r ++ [c]).
    { rewrite <- (rev_involutive l), E. reflexivity. }
    destruct Hl as [Hnil | Hlast].
    + rewrite Hnil in Hlr. destruct (rev r) as [|y t]; discriminate Hlr.
    + rewrite Hlr in Hlast. rewrite last_last in Hlast.
      assert (Hc : beqb c c_cr = false) by (apply beqb_neq; exact Hlast).
      rewrite Hc. reflexivity.
Qed.

Lemma scan_lines_aux_cons : forall cur c r,
  scan_lines_aux cur (c :: r) =
  if beqb c c_nl then drop_cr (rev cur) :: scan_lines_aux [] r
  else scan_lines_aux (c :: cur) r.
Proof. reflexivity. Qed.

Lemma scan_lines_aux_app_nl : forall l cur r,
  ~ In c_nl l ->
  scan_lines_aux cur (l ++ c_nl :: r) = drop_cr (rev cur ++ l) :: scan_lines_aux [] r.
Proof.
  intro l. induction l as [|x l' IH]; intros cur r Hnin.
  - cbn [app]. rewrite scan_lines_aux_cons, beqb_refl, app_nil_r. reflexivity.
  - cbn [app]. rewrite scan_lines_aux_cons.
    assert (Hx : beqb x c_nl = false).
    { apply beqb_neq. intro Hx. apply Hnin. left. exact Hx. }
    rewrite Hx, IH.
    + cbn [rev]. rewrite <- app_assoc. reflexivity.
    + intro Hin. apply Hnin. right. exact Hin.
Qed.

Lemma scan_lines_aux_last : forall l cur,
  ~ In c_nl l -> (cur <> [] \/ l <> []) ->
  scan_lines_aux cur l = [drop_cr (rev cur ++ l)].
Proof.
  intro l. induction l as [|x l' IH]; intros cur Hnin Hne.
  - rewrite app_nil_r. destruct cur as [|c cur'].
    + destruct Hne as [Hne | Hne]; contradiction Hne; reflexivity.
    + reflexivity.
  - rewrite scan_lines_aux_cons.
    assert (Hx : beqb x c_nl = false).
    { apply beqb_neq. intro Hx. apply Hnin. left. exact Hx. }
    rewrite Hx, IH.
    + cbn [rev]. rewrite <- app_assoc. reflexivity.
    + intro Hin. apply Hnin. right. exact Hin.
    + left. intro Hnil. discriminate Hnil.
Qed.

Lemma scan_lines_nil : scan_lines [] = [].
Proof. reflexivity. Qed.

Lemma scan_lines_app_nl : forall l r,
  ~ In c_nl l -> (l = [] \/ last l x00 <> c_cr) ->
  scan_lines (l ++ c_nl :: r) = l :: scan_lines r.
Proof.
  intros l r Hnin Hcr. unfold scan_lines.
  rewrite (scan_lines_aux_app_nl l [] r Hnin). cbn [rev app].
  rewrite (drop_cr_id l Hcr). reflexivity.
Qed.

Lemma scan_lines_last : forall l,
  l <> [] -> ~ In c_nl l -> last l x00 <> c_cr -> scan_lines l = [l].
Proof.
  intros l Hne Hnin Hcr. unfold scan_lines.
  rewrite (scan_lines_aux_last l [] Hnin (or_intror Hne)). cbn [rev app].
  rewrite (drop_cr_id l (or_intror Hcr)). reflexivity.
Qed.

(* ------------------------------------------------------------------ *)
(** * 8. [lf_lines]: split at line feeds only *)

Lemma lf_split_all_nonnil : forall sep s, split_all sep s <> [].
Proof.
  intros sep s. destruct s as [|c r]; cbn [split_all].
  - discriminate.
  - destruct (beqb c sep); [discriminate|].
    destruct (split_all sep r); discriminate.
Qed.

Lemma lf_split_all_app_sep : forall sep a b,
  ~ In sep a -> split_all sep (a ++ sep :: b) = a :: split_all sep b.
Proof.
  intros sep a. induction a as [|x a' IH]; intros b Hnin.
  - cbn [app split_all]. rewrite beqb_refl. reflexivity.
  - cbn [app split_all].
    assert (Hx : beqb x sep = false).
    { apply beqb_neq. intro Hx. apply Hnin. left. exact Hx. }
    rewrite Hx, IH; [reflexivity|].
    intro Hin. apply Hnin. right. exact Hin.
Qed.

Lemma lf_split_all_snoc_sep : forall sep s,
  split_all sep (s ++ [sep]) = split_all sep s ++ [[]].
Proof.
  intros sep s. induction s as [|x r IH].
  - cbn [app split_all]. rewrite beqb_refl. reflexivity.
  - cbn [app split_all]. destruct (beqb x sep).
    + rewrite IH. reflexivity.
    + rewrite IH. destruct (split_all sep r) as [|h t] eqn:E.
      * contradiction (lf_split_all_nonnil sep r E).
      * reflexivity.
Qed.

Lemma lf_split_all_no_sep : forall sep s l, In l (split_all sep s) -> ~ In sep l.
Proof.
  intros sep s. induction s as [|x r IH]; intros l Hin.
  - cbn [split_all] in Hin. destruct Hin as [E | []]. subst l. intros [].
  - cbn [split_all] in Hin. destruct (beqb x sep) eqn:Ex.
    + destruct Hin as [E | Hin]; [subst l; intros [] | exact (IH l Hin)].
    + destruct (split_all sep r) as [|h t] eqn:E.
      * contradiction (lf_split_all_nonnil sep r E).
      * destruct Hin as [El | Hin].
        -- subst l. intros [Hx | Hh].
           ++ apply beqb_neq in Ex. apply Ex. exact Hx.
           ++ exact (IH h (or_introl eq_refl) Hh).
        -- apply IH. right. exact Hin.
Qed.

Lemma lf_join_split_all : forall sep s, join [sep] (split_all sep s) = s.
Proof.
  intros sep s. induction s as [|x r IH].
  - reflexivity.
  - cbn [split_all]. destruct (split_all sep r) as [|h t] eqn:E.
    + contradiction (lf_split_all_nonnil sep r E).
    + destruct (beqb x sep) eqn:Ex.
      * apply beqb_eq in Ex. subst x.
        change (join [sep] ([] :: h :: t)) with ([] ++ [sep] ++ join [sep] (h :: t)).
        rewrite IH. reflexivity.
      * destruct t as [|h' t'].
        -- cbn [join] in IH |- *. rewrite IH. reflexivity.
        -- change (join [sep] ((x :: h) :: h' :: t')) with (x :: (h ++ [sep] ++ join [sep] (h' :: t'))).
           change (join [sep] (h :: h' :: t')) with (h ++ [sep] ++ join [sep] (h' :: t')) in IH.
           rewrite IH. reflexivity.
Qed.

Lemma lf_lines_nil : lf_lines [] = [].
Proof. reflexivity. Qed.

(* one line and its line feed; the line is kept whole, carriage returns
   included *)
Lemma lf_lines_app_nl : forall l r,
  ~ In c_nl l -> lf_lines (l ++ c_nl :: r) = l :: lf_lines r.
Proof.
  intros l r Hnin. unfold lf_lines. rewrite (lf_split_all_app_sep c_nl l r Hnin).
  destruct (split_all c_nl r) as [|h t] eqn:E.
  - contradiction (lf_split_all_nonnil c_nl r E).
  - change (last (l :: h :: t) []) with (last (h :: t) []).
    destruct (is_nil (last (h :: t) [])); reflexivity.
Qed.

Lemma lf_lines_nl : forall r, lf_lines (c_nl :: r) = [] :: lf_lines r.
Proof. intro r. exact (lf_lines_app_nl [] r (fun H => H)). Qed.

(* a text that ends in a line feed: the pieces [strings.Split] gives for the
   text without it *)
Lemma lf_lines_snoc_nl : forall m, lf_lines (m ++ [c_nl]) = split_all c_nl m.
Proof.
  intro m. unfold lf_lines. rewrite lf_split_all_snoc_sep, last_last.
  cbn [is_nil]. apply removelast_last.
Qed.

(* a final line without a line feed *)
Lemma lf_lines_last : forall l, l <> [] -> ~ In c_nl l -> lf_lines l = [l].
Proof.
  intros l Hne Hnin. unfold lf_lines.
  assert (E : split_all c_nl l = [l]).
  { clear Hne. induction l as [|x r IH]; [reflexivity|].
    cbn [split_all].
    assert (Hx : beqb x c_nl = false).
    { apply beqb_neq. intro Hx. apply Hnin. left. exact Hx. }
    rewrite Hx, IH; [reflexivity|]. intro Hin. apply Hnin. right. exact Hin. }
  rewrite E. cbn [last]. destruct l as [|x r]; [contradiction Hne; reflexivity | reflexivity].
Qed.

Lemma lf_lines_no_nl : forall s l, In l (lf_lines s) -> ~ In c_nl l.
Proof.
  intros s l Hin. unfold lf_lines in Hin.
  destruct (is_nil (last (split_all c_nl s) [])).
  - apply (lf_split_all_no_sep c_nl s l).
    destruct (split_all c_nl s) as [|h t] eqn:E; [destruct Hin|].
    rewrite (app_removelast_last (l := h :: t) []) by discriminate.
    apply in_or_app. left. exact Hin.
  - exact (lf_split_all_no_sep c_nl s l Hin).
Qed.

(* MAIN: the lines of a text that ends in a line feed, joined again, are the
   text: every byte is kept (carriage returns too), whatever the text *)
Theorem lf_lines_join : forall m, join [c_nl] (lf_lines (m ++ [c_nl])) = m.
Proof. intro m. rewrite lf_lines_snoc_nl. apply lf_join_split_all. Qed.

Example lf_lines_ex1 : lf_lines [x61; c_nl] = [[x61]].
Proof. reflexivity. Qed.
Example lf_lines_ex2 : lf_lines [x61; c_nl; c_nl] = [[x61]; []].
Proof. reflexivity. Qed.
Example lf_lines_ex3 : lf_lines [x61] = [[x61]].
Proof. reflexivity. Qed.
Example lf_lines_ex4 : lf_lines [x61; c_cr; c_nl] = [[x61; c_cr]].
Proof. reflexivity. Qed.
Example lf_lines_ex5 : lf_lines [c_nl] = [[]].
Proof. reflexivity. Qed.

(* ------------------------------------------------------------------ *)

Print Assumptions bytes_eqb_eq.
Print Assumptions blt_total.
Print Assumptions blt_trans.
Print Assumptions parse_dec_dec.
Print Assumptions span_digits_dec.
Print Assumptions dec_inj.
Print Assumptions unhex_hex.
Print Assumptions hex_lower.
Print Assumptions split1_inv.
Print Assumptions split1s_app.
Print Assumptions split1s_app_nofirst.
Print Assumptions unbe_be32.
Print Assumptions scan_lines_app_nl.
Print Assumptions scan_lines_last.
Print Assumptions lf_lines_app_nl.
Print Assumptions lf_lines_join.
Print Assumptions lf_lines_no_nl.
Print Assumptions is_prefix_spec.
