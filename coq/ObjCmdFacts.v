(* ObjCmdFacts.v — property C01 at COMMAND level: what `hash-object`, `add`,
   `cat-file` and the internal object writer [put_obj] do with the object store.

   1. [cmd_hash_object_eq] / [hash_object_prints_id] / [hash_object_prints_ids]
   2. [add_then_cat_file] (and the stronger [add_then_cat_file_strong],
      [cmd_add_then_cat_file], [step_add_then_cat_file])
   3. [cmd_cat_file_eq] / [cat_file_integrity]
   4. [objects_never_lost] (from [run_store_grows])
   5. [put_obj_spec]
   6. a closed example with header-like content, checked against real Git's id.

   The two plumbing commands are characterised TOTALLY by a pure function of
   the world ([hash_lines], [cat_file_out]): whatever the trace so far and
   whatever fault is pending, they answer that value and leave the state as
   it is. *)
From Coq Require Import Strings.String Strings.Byte.
From Coq Require Import List Bool NArith ZArith Arith Lia ZifyBool ZifyNat ZifyN.
From Goit Require Import Bytes Sha1 Obj Tree Index Regex GoRegex Commit Reflog Config Ignore World Repo.
From Goit Require Import BytesFacts ObjFacts IndexFacts MonadFacts Inv ExactFacts BranchFacts.
Import ListNotations.

Arguments sha1 : simpl never.

(* ================================================================== *)
(** * 0. The id is the one Git assigns *)

(* "blob <decimal length>\0<bytes>", hashed with SHA-1 *)
Lemma obj_id_is_sha1_of_payload : forall k d,
  obj_id k d = sha1 (kind_s k ++ [c_sp] ++ dec (lenN d) ++ [c_nul] ++ d).
Proof. intros k d. unfold obj_id, payload, header. rewrite <- !app_assoc. reflexivity. Qed.

Lemma blob_id_is_git_id : forall data,
  blob_id data = sha1 (str "blob "%string ++ dec (lenN data) ++ [c_nul] ++ data).
Proof. intro data. unfold blob_id. rewrite obj_id_is_sha1_of_payload. reflexivity. Qed.

Lemma blob_id_length : forall data, length (blob_id data) = 20%nat.
Proof. intro data. unfold blob_id, obj_id. apply sha1_length. Qed.

(* ================================================================== *)
(** * 1. [hash-object] *)

(* the loop of [cmd_hash_object], named *)
Definition hash_go (w : world) : list bytes -> M (list bytes) :=
  fix go (l : list bytes) : M (list bytes) :=
    match l with
    | [] => ret []
    | a :: r =>
        match wt_stat w a with
        | SFile =>
            d <- of_opt (am_get (w_files w) a) ;;
            rest <- go r ;; ret (hex (obj_id KBlob d) :: rest)
        | _ => fail
        end
    end.

Lemma cmd_hash_object_uses_go : forall args,
  cmd_hash_object args = (w <- getw ;; hash_go w args).
Proof. reflexivity. Qed.

Lemma hash_go_nil : forall w, hash_go w [] = ret [].
Proof. reflexivity. Qed.

Lemma hash_go_cons : forall w a r,
  hash_go w (a :: r) =
  match wt_stat w a with
  | SFile => d <- of_opt (am_get (w_files w) a) ;;
             rest <- hash_go w r ;; ret (hex (obj_id KBlob d) :: rest)
  | _ => fail
  end.
Proof. reflexivity. Qed.

(* what the command prints, as a function of the world: one line per
   argument, in order; [None] = the command reports an error *)
Fixpoint hash_lines (w : world) (l : list bytes) : option (list bytes) :=
  match l with
  | [] => Some []
  | a :: r =>
      match wt_stat w a with
      | SFile =>
          match am_get (w_files w) a with
          | Some d =>
              match hash_lines w r with
              | Some rest => Some (hex (obj_id KBlob d) :: rest)
              | None => None
              end
          | None => None
          end
      | _ => None
      end
  end.

Definition res_of_opt {A} (o : option A) : res A := match o with Some a => Ok a | None => Err end.

Lemma hash_go_eq : forall w l s, hash_go w l s = (res_of_opt (hash_lines w l), s).
Proof.
  intros w l. induction l as [|a r IH]; intro s.
  - reflexivity.
  - rewrite hash_go_cons. cbn [hash_lines].
    destruct (wt_stat w a) eqn:Est; try reflexivity.
    rewrite ev_bind_of_opt.
    destruct (am_get (w_files w) a) as [d|] eqn:Ed; [|reflexivity].
    unfold bind at 1. rewrite IH.
    destruct (hash_lines w r) as [rest|]; reflexivity.
Qed.

(* TOTAL characterisation: [hash-object] never writes, never panics, and its
   answer is [hash_lines] of the current world — under any pending fault *)
Theorem cmd_hash_object_eq : forall args s,
  cmd_hash_object args s = (res_of_opt (hash_lines (ms_w s) args), s).
Proof.
  intros args s. rewrite cmd_hash_object_uses_go, ev_bind_getw. apply hash_go_eq.
Qed.

(* one existing file: its id, in hex, and nothing else happens *)
Theorem hash_object_prints_id : forall w p data s,
  am_get (w_files w) p = Some data -> wt_stat w p = SFile -> ms_w s = w ->
  cmd_hash_object [p] s = (Ok [hex (obj_id KBlob data)], s).
Proof.
  intros w p data s Hf Hst Hw. rewrite cmd_hash_object_eq, Hw.
  cbn [hash_lines]. rewrite Hst, Hf. reflexivity.
Qed.

(* [wt_stat w p = SFile] already implies that the file has content *)
Theorem hash_object_prints_id_stat : forall w p s,
  wt_stat w p = SFile -> ms_w s = w ->
  exists data, am_get (w_files w) p = Some data /\
               cmd_hash_object [p] s = (Ok [hex (obj_id KBlob data)], s).
Proof.
  intros w p s Hst Hw. pose proof (wt_stat_SFile w p Hst) as Hne. unfold file in Hne.
  destruct (am_get (w_files w) p) as [data|] eqn:Hf; [|contradiction Hne; reflexivity].
  exists data. split; [reflexivity|]. apply (hash_object_prints_id w); assumption.
Qed.

(* a list of existing files: the ids, in the order of the arguments *)
Lemma hash_lines_all : forall w ps ds,
  Forall2 (fun p d => am_get (w_files w) p = Some d /\ wt_stat w p = SFile) ps ds ->
  hash_lines w ps = Some (map (fun d => hex (obj_id KBlob d)) ds).
Proof.
  intros w ps ds Hall. induction Hall as [|p d ps' ds' [Hf Hst] Hrest IH].
  - reflexivity.
  - cbn [hash_lines map]. rewrite Hst, Hf, IH. reflexivity.
Qed.

Theorem hash_object_prints_ids : forall w ps ds s,
  Forall2 (fun p d => am_get (w_files w) p = Some d /\ wt_stat w p = SFile) ps ds ->
  ms_w s = w ->
  cmd_hash_object ps s = (Ok (map (fun d => hex (obj_id KBlob d)) ds), s).
Proof.
  intros w ps ds s Hall Hw. rewrite cmd_hash_object_eq, Hw, (hash_lines_all w ps ds Hall).
  reflexivity.
Qed.

(* one argument that is not an existing file: error, nothing printed, and
   the arguments before it do not matter *)
Lemma hash_lines_bad : forall w ps, Exists (fun p => wt_stat w p <> SFile) ps -> hash_lines w ps = None.
Proof.
  intros w ps Hex. induction Hex as [p ps' Hbad | p ps' Hex' IH].
  - cbn [hash_lines]. destruct (wt_stat w p); try reflexivity. contradiction Hbad. reflexivity.
  - cbn [hash_lines]. rewrite IH.
    destruct (wt_stat w p); try reflexivity. destruct (am_get (w_files w) p); reflexivity.
Qed.

Theorem hash_object_refuses : forall w ps s,
  Exists (fun p => wt_stat w p <> SFile) ps -> ms_w s = w ->
  cmd_hash_object ps s = (Err, s).
Proof.
  intros w ps s Hex Hw. rewrite cmd_hash_object_eq, Hw, (hash_lines_bad w ps Hex). reflexivity.
Qed.

(* the printed line is a function of the content only: two paths with equal
   content give the same line ... *)
Theorem hash_object_same_content : forall w p q data s,
  am_get (w_files w) p = Some data -> wt_stat w p = SFile ->
  am_get (w_files w) q = Some data -> wt_stat w q = SFile -> ms_w s = w ->
  cmd_hash_object [p; q] s = (Ok [hex (obj_id KBlob data); hex (obj_id KBlob data)], s).
Proof.
  intros w p q data s Hp Hsp Hq Hsq Hw.
  apply (hash_object_prints_ids w [p; q] [data; data]); [|exact Hw].
  constructor; [split; assumption|]. constructor; [split; assumption|]. constructor.
Qed.

(* ... in any two worlds ... *)
Theorem hash_object_content_addressed : forall w1 w2 p1 p2 data s1 s2,
  am_get (w_files w1) p1 = Some data -> wt_stat w1 p1 = SFile -> ms_w s1 = w1 ->
  am_get (w_files w2) p2 = Some data -> wt_stat w2 p2 = SFile -> ms_w s2 = w2 ->
  fst (cmd_hash_object [p1] s1) = fst (cmd_hash_object [p2] s2).
Proof.
  intros w1 w2 p1 p2 data s1 s2 H1 Hs1 Hw1 H2 Hs2 Hw2.
  rewrite (hash_object_prints_id w1 p1 data s1 H1 Hs1 Hw1).
  rewrite (hash_object_prints_id w2 p2 data s2 H2 Hs2 Hw2). reflexivity.
Qed.

(* ... and two different lines mean two different ids (the hex text is injective) *)
Theorem hash_object_line_inj : forall d1 d2,
  hex (obj_id KBlob d1) = hex (obj_id KBlob d2) -> obj_id KBlob d1 = obj_id KBlob d2.
Proof. intros d1 d2 H. apply hex_inj. exact H. Qed.

(* the line has 40 lower-case hex digits and is accepted back by [cat-file] *)
Lemma hash_line_shape : forall d,
  length (hex (obj_id KBlob d)) = 40%nat /\ forallb is_lower_hex (hex (obj_id KBlob d)) = true /\
  read_hash (hex (obj_id KBlob d)) = Some (obj_id KBlob d).
Proof.
  intro d. split; [|split].
  - rewrite hex_length. unfold obj_id. rewrite sha1_length. reflexivity.
  - apply hex_lower.
  - apply read_hash_obj_id.
Qed.

(* ================================================================== *)
(** * 3. [cat-file] (before 2., which uses it) *)

(* the listing printed for a tree *)
Definition tree_lines (ns : list node) : list bytes :=
  map (fun '(isd, i, n) => (if isd : bool then str "tree "%string else str "blob "%string) ++ hex i ++ [c_sp] ++ n)
      (tree_listing ns).

(* what [cat-file -p] prints for a decoded object *)
Definition cat_p_lines (w : world) (kd : kind * bytes) : option (list bytes) :=
  match fst kd with
  | KTree =>
      match walk_tree (S (length (w_objs w))) (w_objs w) (snd kd) with
      | Some ns => Some (tree_lines ns)
      | None => None
      end
  | _ => Some [snd kd]
  end.

(* the answer of [cat-file] with one argument, as a function of the world *)
Definition cat_file_out (w : world) (t p : bool) (a : bytes) : res (list bytes) :=
  if t && p then Err
  else match read_hash a with
       | None => Err
       | Some id =>
           match get_obj (w_objs w) id with
           | None => Err
           | Some kd =>
               match (if p then cat_p_lines w kd else Some []) with
               | Some pl => Ok ((if t then [kind_s (fst kd)] else []) ++ pl)
               | None => Err
               end
           end
       end.

(* TOTAL characterisation: [cat-file] never writes and never panics *)
Theorem cmd_cat_file_eq : forall t p a s,
  cmd_cat_file t p [a] s = (cat_file_out (ms_w s) t p a, s).
Proof.
  intros t p a s. unfold cmd_cat_file, cat_file_out.
  rewrite ev_bind_guard. destruct (t && p) eqn:Etp; cbn [negb]; [reflexivity|].
  rewrite ev_bind_of_opt. destruct (read_hash a) as [id|] eqn:Er; [|reflexivity].
  rewrite ev_bind_getw, ev_bind_of_opt.
  destruct (get_obj (w_objs (ms_w s)) id) as [kd|] eqn:Eg; [|reflexivity].
  rewrite ev_bind_ret.
  destruct p.
  - unfold cat_p_lines, tree_lines. destruct (fst kd) eqn:Ek.
    + rewrite ev_bind_ret. reflexivity.
    + rewrite ev_bind_assoc, ev_bind_of_opt.
      destruct (walk_tree (S (length (w_objs (ms_w s)))) (w_objs (ms_w s)) (snd kd)) as [ns|];
        [|reflexivity].
      rewrite ev_bind_ret. reflexivity.
    + rewrite ev_bind_ret. reflexivity.
    + rewrite ev_bind_ret. reflexivity.
  - rewrite ev_bind_ret. reflexivity.
Qed.

Theorem cmd_cat_file_arity : forall t p args s,
  length args <> 1%nat -> cmd_cat_file t p args s = (Err, s).
Proof.
  intros t p args s Hlen. destruct args as [|a [|b r]]; try reflexivity.
  contradiction Hlen. reflexivity.
Qed.

(* a retrievable object that is not a tree: -p prints its bytes, -t its kind *)
Lemma cat_file_out_p : forall w id k d,
  get_obj (w_objs w) id = Some (k, d) -> k <> KTree ->
  cat_file_out w false true (hex id) = Ok [d].
Proof.
  intros w id k d Hg Hk. unfold cat_file_out. cbn [andb].
  rewrite (read_hash_hex id (get_obj_id_length _ _ _ Hg)), Hg.
  unfold cat_p_lines. cbn [fst snd].
  destruct k; try reflexivity. contradiction Hk. reflexivity.
Qed.

Lemma cat_file_out_t : forall w id k d,
  get_obj (w_objs w) id = Some (k, d) ->
  cat_file_out w true false (hex id) = Ok [kind_s k].
Proof.
  intros w id k d Hg. unfold cat_file_out. cbn [andb].
  rewrite (read_hash_hex id (get_obj_id_length _ _ _ Hg)), Hg. reflexivity.
Qed.

Theorem cat_file_prints : forall w id k d s,
  get_obj (w_objs w) id = Some (k, d) -> k <> KTree -> ms_w s = w ->
  cmd_cat_file false true [hex id] s = (Ok [d], s) /\
  cmd_cat_file true false [hex id] s = (Ok [kind_s k], s).
Proof.
  intros w id k d s Hg Hk Hw. rewrite !cmd_cat_file_eq, Hw.
  rewrite (cat_file_out_p w id k d Hg Hk), (cat_file_out_t w id k d Hg). split; reflexivity.
Qed.

(* what an [Ok] answer of [cat-file] means, whatever the store contains *)
Theorem cat_file_sound : forall t p a s out s',
  cmd_cat_file t p [a] s = (Ok out, s') ->
  s' = s /\ t && p = false /\
  exists id k d payl,
    read_hash a = Some id /\
    get_obj (w_objs (ms_w s)) id = Some (k, d) /\
    (* the file under that name is named by its own SHA-1 and decodes to (k, d) *)
    st_lookup (w_objs (ms_w s)) id = Some payl /\ sha1 payl = id /\
    parse_payload payl = Some (k, d) /\
    exists pl, (if p then cat_p_lines (ms_w s) (k, d) else Some []) = Some pl /\
               out = (if t then [kind_s k] else []) ++ pl.
Proof.
  intros t p a s out s' Hrun. rewrite cmd_cat_file_eq in Hrun.
  injection Hrun as Hout Hs. split; [symmetry; exact Hs|].
  unfold cat_file_out in Hout.
  destruct (t && p) eqn:Etp; [discriminate Hout|]. split; [reflexivity|].
  destruct (read_hash a) as [id|] eqn:Er; [|discriminate Hout].
  destruct (get_obj (w_objs (ms_w s)) id) as [[k d]|] eqn:Eg; [|discriminate Hout].
  destruct (get_obj_integrity _ _ _ _ Eg) as (payl & Hl & Hsha & Hparse).
  exists id, k, d, payl. repeat (split; [first [reflexivity | assumption]|]).
  destruct (if p then cat_p_lines (ms_w s) (k, d) else Some []) as [pl|] eqn:Epl; [|discriminate Hout].
  exists pl. split; [reflexivity|]. cbn [fst] in Hout. injection Hout as Hout. symmetry. exact Hout.
Qed.

(* Item 3 of the task: [cat-file -p] of a non-tree prints exactly the decoded
   bytes of the file stored under the requested id, and that file hashes to
   that id: a damaged or misplaced object is never printed *)
Theorem cat_file_integrity : forall t a s out s',
  cmd_cat_file t true [a] s = (Ok out, s') ->
  s' = s /\ t = false /\
  exists id k d payl,
    read_hash a = Some id /\
    get_obj (w_objs (ms_w s)) id = Some (k, d) /\
    st_lookup (w_objs (ms_w s)) id = Some payl /\ sha1 payl = id /\
    parse_payload payl = Some (k, d) /\
    (k <> KTree -> out = [d]).
Proof.
  intros t a s out s' Hrun.
  destruct (cat_file_sound t true a s out s' Hrun)
    as (Hs & Htp & id & k & d & payl & Hr & Hg & Hl & Hsha & Hparse & pl & Hpl & Hout).
  split; [exact Hs|].
  assert (Ht : t = false) by (destruct t; [discriminate Htp | reflexivity]).
  split; [exact Ht|].
  exists id, k, d, payl. repeat (split; [assumption|]).
  intro Hk. subst t. cbn [app] in Hout. subst out.
  unfold cat_p_lines in Hpl. cbn [fst snd] in Hpl.
  destruct k; try (injection Hpl as Hpl; symmetry; exact Hpl). contradiction Hk. reflexivity.
Qed.

(* contrapositive forms: nothing is printed for ... *)
(* ... a file whose content does not hash to its name (damaged or misplaced) *)
Theorem cat_file_damaged_refused : forall w id payl t p s,
  st_lookup (w_objs w) id = Some payl -> sha1 payl <> id -> ms_w s = w ->
  cmd_cat_file t p [hex id] s = (Err, s).
Proof.
  intros w id payl t p s Hl Hne Hw. rewrite cmd_cat_file_eq, Hw. unfold cat_file_out.
  destruct (t && p); [reflexivity|].
  destruct (read_hash (hex id)) as [id'|] eqn:Er; [|reflexivity].
  assert (Hid : id' = id).
  { unfold read_hash in Er. destruct (has_hex_run 40 0 (hex id)); [|discriminate Er].
    rewrite unhex_hex in Er. injection Er as Er. symmetry. exact Er. }
  subst id'. unfold get_obj. rewrite Hl.
  destruct (parse_payload payl) as [kd|]; [|reflexivity].
  destruct (bytes_eqb (sha1 payl) id) eqn:E; [|reflexivity].
  apply bytes_eqb_eq in E. contradiction (Hne E).
Qed.

(* ... an id under which nothing is stored *)
Theorem cat_file_missing_refused : forall w id t p s,
  st_lookup (w_objs w) id = None -> ms_w s = w ->
  cmd_cat_file t p [hex id] s = (Err, s).
Proof.
  intros w id t p s Hl Hw. rewrite cmd_cat_file_eq, Hw. unfold cat_file_out.
  destruct (t && p); [reflexivity|].
  destruct (read_hash (hex id)) as [id'|] eqn:Er; [|reflexivity].
  assert (Hid : id' = id).
  { unfold read_hash in Er. destruct (has_hex_run 40 0 (hex id)); [|discriminate Er].
    rewrite unhex_hex in Er. injection Er as Er. symmetry. exact Er. }
  subst id'. unfold get_obj. rewrite Hl. reflexivity.
Qed.

(* ================================================================== *)
(** * 5. [put_obj] *)

Record put_obj_post (w : world) (k : kind) (d : bytes) (w' : world) : Prop := {
  pop_objs : w_objs w' = st_set (w_objs w) (obj_id k d) (payload k d);
  pop_coll : w_coll w' = w_coll w || st_collides (w_objs w) (obj_id k d) (payload k d);
  pop_index : w_index w' = w_index w;
  pop_wt : same_wt w w';
  pop_meta : same_meta w w';
  (* the file now stored under the id is the payload *)
  pop_lookup : st_lookup (w_objs w') (obj_id k d) = Some (payload k d);
  (* reading it back gives kind and bytes (int64 size guard of the reader) *)
  pop_get : (lenN d < 2 ^ 63)%N -> get_obj (w_objs w') (obj_id k d) = Some (k, d);
  (* every other id reads as before *)
  pop_frame : forall id, id <> obj_id k d -> get_obj (w_objs w') id = get_obj (w_objs w) id;
  pop_frame_lookup : forall id, id <> obj_id k d -> st_lookup (w_objs w') id = st_lookup (w_objs w) id;
  (* without a collision nothing readable changed at all, the same id included *)
  pop_kept : w_coll w' = false -> objs_kept w w';
  (* an object that was already there: the store is literally unchanged *)
  pop_again : st_lookup (w_objs w) (obj_id k d) = Some (payload k d) -> w' = w
}.

Lemma world_eta : forall w,
  mkW (w_inited w) (w_head w) (w_refs w) (w_index w) (w_objs w) (w_coll w) (w_hlog w) (w_blogs w)
      (w_lcfg w) (w_gcfg w) (w_files w) (w_dirs w) = w.
Proof. intro w. destruct w. reflexivity. Qed.

Lemma put_effect_post : forall w k d,
  put_obj_post w k d (apply_effect (EPutObj (obj_id k d) (payload k d)) w).
Proof.
  intros w k d. constructor.
  - apply w_objs_EPutObj.
  - apply w_coll_EPutObj.
  - apply w_index_EPutObj.
  - split; reflexivity.
  - repeat split.
  - rewrite w_objs_EPutObj. apply st_lookup_set_same.
  - intro Hlen. rewrite w_objs_EPutObj. apply get_put. exact Hlen.
  - intros id Hne. rewrite w_objs_EPutObj. apply get_frame. exact Hne.
  - intros id Hne. rewrite w_objs_EPutObj. apply st_lookup_set_other. exact Hne.
  - intro Hc. apply (objs_kept_trace [EPutObj (obj_id k d) (payload k d)] w). exact Hc.
  - intro Hl. cbn [apply_effect]. unfold set_objs.
    rewrite (put_again _ _ _ Hl), (st_collides_false_set _ _ _ Hl), orb_false_r.
    apply world_eta.
Qed.

(* [put_obj] performs exactly one effect, the write of the payload under its
   SHA-1, and returns that id *)
Theorem put_obj_spec : forall k d w,
  runs (put_obj k d) w (Ok (obj_id k d)) [EPutObj (obj_id k d) (payload k d)] /\
  run_m (put_obj k d) w =
    (Ok (obj_id k d), apply_effect (EPutObj (obj_id k d) (payload k d)) w,
     [EPutObj (obj_id k d) (payload k d)]) /\
  put_obj_post w k d (apply_effect (EPutObj (obj_id k d) (payload k d)) w).
Proof.
  intros k d w.
  assert (Hr : runs (put_obj k d) w (Ok (obj_id k d)) [EPutObj (obj_id k d) (payload k d)]).
  { unfold put_obj. repeat rstep. }
  split; [exact Hr|]. split; [exact (runs_run_m _ _ _ _ _ Hr)|]. apply put_effect_post.
Qed.

(* under an injected fault at this very write: error, disk untouched *)
Theorem put_obj_fault : forall k d s,
  ms_fault s = Some 0%nat ->
  put_obj k d s = (Err, mkMS (ms_w s) (ms_trace s) None).
Proof.
  intros k d s Hf. unfold put_obj, bind. rewrite (emit_fault_0 _ _ Hf). reflexivity.
Qed.

(* a pending fault further away does not change what is written *)
Theorem put_obj_fault_later : forall k d s n,
  ms_fault s = Some (S n) ->
  put_obj k d s = (Ok (obj_id k d),
                   mkMS (apply_effect (EPutObj (obj_id k d) (payload k d)) (ms_w s))
                        (ms_trace s ++ [EPutObj (obj_id k d) (payload k d)]) (Some n)).
Proof.
  intros k d s n Hf. unfold put_obj, bind. rewrite (emit_fault_S _ _ _ Hf). reflexivity.
Qed.

(* the size guard is necessary: an object of 2^63 bytes or more is written
   but cannot be read back (the reader's length field is an int64) *)
Theorem put_obj_too_big : forall k d w,
  (2 ^ 63 <= lenN d)%N ->
  get_obj (w_objs (apply_effect (EPutObj (obj_id k d) (payload k d)) w)) (obj_id k d) = None.
Proof.
  intros k d w Hbig. rewrite w_objs_EPutObj. unfold get_obj.
  rewrite st_lookup_set_same, (payload_too_big k d Hbig). reflexivity.
Qed.

(* the id returned is the SHA-1 of "<kind> <len>\0<bytes>", and what the
   store holds under it afterwards is exactly that text *)
Corollary put_obj_content_addressed : forall k d w,
  let w' := apply_effect (EPutObj (obj_id k d) (payload k d)) w in
  st_lookup (w_objs w') (sha1 (kind_s k ++ [c_sp] ++ dec (lenN d) ++ [c_nul] ++ d))
  = Some (kind_s k ++ [c_sp] ++ dec (lenN d) ++ [c_nul] ++ d).
Proof.
  intros k d w w'. rewrite <- obj_id_is_sha1_of_payload.
  replace (kind_s k ++ [c_sp] ++ dec (lenN d) ++ [c_nul] ++ d) with (payload k d)
    by (unfold payload, header; rewrite <- !app_assoc; reflexivity).
  apply (pop_lookup _ _ _ _ (put_effect_post w k d)).
Qed.

(* ================================================================== *)
(** * 4. Objects are never lost *)

(* [run_store_grows], restated *)
Theorem store_grows : forall h w,
  w_coll (run h w) = false ->
  forall id p, st_lookup (w_objs w) id = Some p -> st_lookup (w_objs (run h w)) id = Some p.
Proof. exact run_store_grows. Qed.

(* same file under the id -> same decoded object *)
Lemma get_obj_same_lookup : forall st st' id p,
  st_lookup st id = Some p -> st_lookup st' id = Some p -> get_obj st' id = get_obj st id.
Proof. intros st st' id p H H'. apply get_obj_lookup. rewrite H, H'. reflexivity. Qed.

Theorem objects_never_lost : forall h w id kd,
  get_obj (w_objs w) id = Some kd ->
  w_coll (run h w) = false ->
  get_obj (w_objs (run h w)) id = Some kd.
Proof.
  intros h w id kd Hg Hc.
  destruct kd as [k d]. destruct (get_obj_integrity _ _ _ _ Hg) as (p & Hl & _ & _).
  rewrite (get_obj_same_lookup (w_objs w) (w_objs (run h w)) id p Hl
             (run_store_grows h w Hc id p Hl)).
  exact Hg.
Qed.

(* the flag form: either a collision was flagged or the object is still there *)
Corollary objects_never_lost_or_flagged : forall h w id kd,
  get_obj (w_objs w) id = Some kd ->
  w_coll (run h w) = true \/ get_obj (w_objs (run h w)) id = Some kd.
Proof.
  intros h w id kd Hg. destruct (w_coll (run h w)) eqn:Hc; [left; reflexivity|].
  right. apply objects_never_lost; assumption.
Qed.

Lemma run_app : forall h1 h2 w, run (h1 ++ h2) w = run h2 (run h1 w).
Proof. intros h1 h2 w. unfold run. apply fold_left_app. Qed.

(* at command level: what [cat-file] printed once it prints for ever (blobs,
   commits, tags: a tree listing needs the sub-trees too, see TreeFacts) *)
Theorem cat_file_stable : forall h w id k d s s',
  get_obj (w_objs w) id = Some (k, d) -> k <> KTree ->
  w_coll (run h w) = false ->
  ms_w s = w -> ms_w s' = run h w ->
  cmd_cat_file false true [hex id] s = (Ok [d], s) /\
  cmd_cat_file false true [hex id] s' = (Ok [d], s') /\
  cmd_cat_file true false [hex id] s' = (Ok [kind_s k], s').
Proof.
  intros h w id k d s s' Hg Hk Hc Hw Hw'.
  pose proof (objects_never_lost h w id (k, d) Hg Hc) as Hg'.
  destruct (cat_file_prints w id k d s Hg Hk Hw) as [H1 _].
  destruct (cat_file_prints (run h w) id k d s' Hg' Hk Hw') as [H2 H3].
  auto.
Qed.

(* ================================================================== *)
(** * 2. [add], then [cat-file] *)

(* [add_file] without any hypothesis on the staging area: either the path is
   staged with this very id and nothing happens, or the blob is written and
   the staging area replaced *)
Lemma add_file_cases : forall w p data, file w p = Some data ->
  (staged w p = Some (blob_id data) /\ runs (add_file p) w (Ok tt) [])
  \/ (staged w p <> Some (blob_id data) /\
      exists es, runs (add_file p) w (Ok tt)
                   [EPutObj (blob_id data) (payload KBlob data); ESetIndex es]).
Proof.
  intros w p data Hf. unfold staged.
  destruct (get_entry (idx_of w) p) as [[pos e]|] eqn:Hg; cbn [option_map snd].
  - destruct (bytes_eqb (e_id e) (blob_id data)) eqn:Eid.
    + left. split.
      * apply bytes_eqb_eq in Eid. rewrite Eid. reflexivity.
      * unfold add_file. rstep. apply (runs_bind_of_opt _ _ _ data); [exact Hf|].
        cbv zeta. rewrite Hg. fold (blob_id data). rewrite Eid. apply runs_ret.
    + right. split.
      * intro H. injection H as H. rewrite H, bytes_eqb_refl in Eid. discriminate Eid.
      * eexists. unfold add_file. rstep. apply (runs_bind_of_opt _ _ _ data); [exact Hf|].
        cbv zeta. rewrite Hg. fold (blob_id data). rewrite Eid.
        unfold put_obj. fold (blob_id data). repeat rstep.
  - right. split.
    + intro H. discriminate H.
    + eexists. unfold add_file. rstep. apply (runs_bind_of_opt _ _ _ data); [exact Hf|].
      cbv zeta. rewrite Hg. unfold put_obj. fold (blob_id data). repeat rstep.
Qed.

(* after [add_file p] the blob of the file's bytes is retrievable under its
   id.  No hypothesis on the staging area; NO no-collision hypothesis either:
   the write replaces whatever file was under that name.  In the no-op case
   (already staged with that id) the blob was stored by an earlier command —
   that is the hypothesis [Hold]. *)
Theorem add_file_then_readable : forall w p data,
  file w p = Some data -> (lenN data < 2 ^ 63)%N ->
  (staged w p = Some (blob_id data) -> get_obj (w_objs w) (blob_id data) = Some (KBlob, data)) ->
  exists tr, runs (add_file p) w (Ok tt) tr /\ Forall add_eff tr /\
             (staged w p = Some (blob_id data) -> tr = []) /\
             get_obj (w_objs (apply_effects tr w)) (blob_id data) = Some (KBlob, data).
Proof.
  intros w p data Hf Hlen Hold.
  destruct (add_file_cases w p data Hf) as [[Hs Hr] | [Hns (es & Hr)]].
  - exists []. split; [exact Hr|]. split; [constructor|]. split; [reflexivity|].
    cbn [apply_effects fold_left]. apply Hold. exact Hs.
  - exists [EPutObj (blob_id data) (payload KBlob data); ESetIndex es].
    split; [exact Hr|]. split; [repeat constructor|].
    split; [intro Hs; contradiction (Hns Hs)|].
    autorewrite with wfields. unfold blob_id. apply get_put. exact Hlen.
Qed.

(* reading a path of the work tree is not affected by [add]'s effects *)
Lemma add_eff_trace_file : forall tr w q, Forall add_eff tr ->
  file (apply_effects tr w) q = file w q /\ wt_stat (apply_effects tr w) q = wt_stat w q.
Proof.
  intros tr w q Hall. destruct (add_eff_trace_frame tr w Hall) as [[Hfiles Hdirs] _].
  split.
  - unfold file. rewrite Hfiles. reflexivity.
  - apply wt_stat_ext; assumption.
Qed.

(* Item 2, strongest form: [add_file p], then [cat-file -p <id>] prints the
   file's bytes, [cat-file -t <id>] prints "blob", and [hash-object p] prints
   that id — for EVERY byte string below the int64 size guard (empty, NULs,
   text that looks like an object header, ...) *)
Theorem add_then_cat_file_strong : forall w p data,
  am_get (w_files w) p = Some data -> (lenN data < 2 ^ 63)%N ->
  (staged w p = Some (blob_id data) -> get_obj (w_objs w) (blob_id data) = Some (KBlob, data)) ->
  exists tr, runs (add_file p) w (Ok tt) tr /\ Forall add_eff tr /\
    forall s, ms_w s = apply_effects tr w ->
      cmd_cat_file false true [hex (obj_id KBlob data)] s = (Ok [data], s) /\
      cmd_cat_file true false [hex (obj_id KBlob data)] s = (Ok [kind_s KBlob], s) /\
      (wt_stat w p = SFile -> cmd_hash_object [p] s = (Ok [hex (obj_id KBlob data)], s)).
Proof.
  intros w p data Hf Hlen Hold.
  destruct (add_file_then_readable w p data Hf Hlen Hold) as (tr & Hr & Hall & _ & Hg).
  exists tr. split; [exact Hr|]. split; [exact Hall|]. intros s Hw.
  assert (Hk : KBlob <> KTree) by (intro H; discriminate H).
  destruct (cat_file_prints _ _ _ _ s Hg Hk Hw) as [H1 H2].
  split; [exact H1|]. split; [exact H2|]. intro Hst.
  destruct (add_eff_trace_file tr w p Hall) as [Hf' Hst'].
  apply (hash_object_prints_id (apply_effects tr w)); [|rewrite Hst'; exact Hst | exact Hw].
  unfold file in Hf'. rewrite Hf'. exact Hf.
Qed.

Lemma staged_dec : forall w p id, {staged w p = Some id} + {staged w p <> Some id}.
Proof.
  intros w p id. destruct (staged w p) as [i|].
  - destruct (bytes_eq_dec i id) as [E|N]; [left; rewrite E; reflexivity|].
    right. intro H. injection H as H. contradiction (N H).
  - right. intro H. discriminate H.
Qed.

(* Item 2 as asked: through [add_file_spec] ([afp_stored] for the fresh write,
   [afp_noop] for the path already staged with that id) and [read_hash_obj_id] *)
Theorem add_then_cat_file : forall w p data,
  Canonical (idx_of w) ->
  am_get (w_files w) p = Some data -> (lenN data < 2 ^ 63)%N ->
  exists tr, runs (add_file p) w (Ok tt) tr /\
    add_file_post w p data (apply_effects tr w) /\
    (w_coll (apply_effects tr w) = false ->
     (* no-op case: the blob was stored when the path was staged *)
     (staged w p = Some (blob_id data) -> get_obj (w_objs w) (blob_id data) = Some (KBlob, data)) ->
     forall s, ms_w s = apply_effects tr w ->
       cmd_cat_file false true [hex (obj_id KBlob data)] s = (Ok [data], s) /\
       cmd_cat_file true false [hex (obj_id KBlob data)] s = (Ok [kind_s KBlob], s)).
Proof.
  intros w p data Hcan Hf Hlen.
  destruct (add_file_spec w p data Hcan Hf) as (tr & Hr & _ & _ & Hpost).
  exists tr. split; [exact Hr|]. split; [exact Hpost|]. intros Hcoll Hold s Hw.
  assert (Hg : get_obj (w_objs (apply_effects tr w)) (blob_id data) = Some (KBlob, data)).
  { destruct (staged_dec w p (blob_id data)) as [Hs|Hns].
    - rewrite (afp_noop _ _ _ _ Hpost Hs). apply Hold. exact Hs.
    - apply (afp_stored _ _ _ _ Hpost Hns Hcoll Hlen). }
  rewrite !cmd_cat_file_eq, Hw. unfold cat_file_out. cbn [andb].
  rewrite read_hash_obj_id. fold (blob_id data). rewrite Hg. split; reflexivity.
Qed.

(* the same through the command [add <file>] *)
Theorem cmd_add_then_cat_file : forall c w p data,
  wt_stat w p = SFile -> ignored w (x_pats c) p = false ->
  am_get (w_files w) p = Some data -> (lenN data < 2 ^ 63)%N ->
  (staged w p = Some (blob_id data) -> get_obj (w_objs w) (blob_id data) = Some (KBlob, data)) ->
  exists tr, runs (cmd_add c [p]) w (Ok []) tr /\ Forall add_eff tr /\
    forall s, ms_w s = apply_effects tr w ->
      cmd_cat_file false true [hex (obj_id KBlob data)] s = (Ok [data], s) /\
      cmd_cat_file true false [hex (obj_id KBlob data)] s = (Ok [kind_s KBlob], s) /\
      cmd_hash_object [p] s = (Ok [hex (obj_id KBlob data)], s).
Proof.
  intros c w p data Hst Hig Hf Hlen Hold.
  destruct (add_then_cat_file_strong w p data Hf Hlen Hold) as (tr & Hr & Hall & Hafter).
  exists tr. split; [|split; [exact Hall|]].
  - apply cmd_add_one_arg; [unfold exists_on_disk; rewrite Hst; reflexivity|].
    unfold add_arg. rstep. rewrite Hig, Hst. exact Hr.
  - intros s Hw. destruct (Hafter s Hw) as (H1 & H2 & H3).
    split; [exact H1|]. split; [exact H2|]. apply H3. exact Hst.
Qed.

(* the store fact alone, through the command *)
Lemma cmd_add_file_readable : forall c w p data,
  wt_stat w p = SFile -> ignored w (x_pats c) p = false ->
  am_get (w_files w) p = Some data -> (lenN data < 2 ^ 63)%N ->
  (staged w p = Some (blob_id data) -> get_obj (w_objs w) (blob_id data) = Some (KBlob, data)) ->
  exists tr, runs (cmd_add c [p]) w (Ok []) tr /\ Forall add_eff tr /\
             get_obj (w_objs (apply_effects tr w)) (blob_id data) = Some (KBlob, data).
Proof.
  intros c w p data Hst Hig Hf Hlen Hold.
  destruct (add_file_then_readable w p data Hf Hlen Hold) as (tr & Hr & Hall & _ & Hg).
  exists tr. split; [|split; [exact Hall | exact Hg]].
  apply cmd_add_one_arg; [unfold exists_on_disk; rewrite Hst; reflexivity|].
  unfold add_arg. rstep. rewrite Hig, Hst. exact Hr.
Qed.

(* ---------- at the level of [step] ---------- *)

(* the two plumbing commands as steps: the world is returned as it is, the
   trace is empty, the outcome is the pure function *)
Theorem step_cat_file_eq : forall e t p a w,
  step (ACmd e (CCatFile t p [a])) w =
  (w,
   if w_inited w then
     match ctx_of w with Some _ => outcome_of (cat_file_out w t p a) | None => OErr end
   else OErr,
   []).
Proof.
  intros e t p a w. rewrite step_cmd_eq, run_cmd_eq. cbn [ms_w].
  destruct (w_inited w); [|reflexivity].
  destruct (ctx_of w) as [x|]; [|reflexivity].
  cbn [dispatch]. rewrite cmd_cat_file_eq. reflexivity.
Qed.

Theorem step_hash_object_eq : forall e args w,
  step (ACmd e (CHashObject args)) w =
  (w,
   if w_inited w then
     match ctx_of w with Some _ => outcome_of (res_of_opt (hash_lines w args)) | None => OErr end
   else OErr,
   []).
Proof.
  intros e args w. rewrite step_cmd_eq, run_cmd_eq. cbn [ms_w].
  destruct (w_inited w); [|reflexivity].
  destruct (ctx_of w) as [x|]; [|reflexivity].
  cbn [dispatch]. rewrite cmd_hash_object_eq. reflexivity.
Qed.

Lemma get_commit_kept : forall w w' id c,
  objs_kept w w' -> get_commit (w_objs w) id = Some c -> get_commit (w_objs w') id = Some c.
Proof.
  intros w w' id c Hk Hc. unfold get_commit, get_kind in Hc |- *.
  destruct (get_obj (w_objs w) id) as [[k d]|] eqn:Hg; [|discriminate Hc].
  rewrite (Hk id (k, d) Hg). exact Hc.
Qed.

(* the next command still loads its context after [add]'s effects, unless a
   collision was flagged *)
Lemma ctx_of_add_eff : forall tr w x, Forall add_eff tr ->
  w_coll (apply_effects tr w) = false -> ctx_of w = Some x -> ctx_of (apply_effects tr w) = Some x.
Proof.
  intros tr w x Hall Hcoll Hx.
  destruct (add_eff_trace_frame tr w Hall) as [[Hfiles Hdirs] (Hi & Hh & Hrefs & _ & _ & Hl & Hg)].
  pose proof (objs_kept_trace tr w Hcoll) as Hkept.
  unfold ctx_of in Hx |- *. rewrite Hg, Hl, Hfiles.
  destruct (cfg_of (w_gcfg w)) as [g|]; [|discriminate Hx].
  destruct (cfg_of (w_lcfg w)) as [l|]; [|discriminate Hx].
  assert (Hhc : forall hc, head_commit w = Some hc -> head_commit (apply_effects tr w) = Some hc).
  { intros hc Hhc. unfold head_commit in Hhc |- *. rewrite Hrefs, Hh.
    destruct (am_get (w_refs w) (w_head w)) as [id|]; [|exact Hhc].
    destruct (get_commit (w_objs w) id) as [cm|] eqn:Ec; [|discriminate Hhc].
    rewrite (get_commit_kept w _ id cm Hkept Ec). exact Hhc. }
  destruct (head_commit w) as [hc|]; [|discriminate Hx].
  rewrite (Hhc hc eq_refl). exact Hx.
Qed.

Theorem step_add_then_cat_file : forall e e1 e2 e3 w x p data,
  w_inited w = true -> ctx_of w = Some x ->
  wt_stat w p = SFile -> ignored w (x_pats x) p = false ->
  am_get (w_files w) p = Some data -> (lenN data < 2 ^ 63)%N ->
  (staged w p = Some (blob_id data) -> get_obj (w_objs w) (blob_id data) = Some (KBlob, data)) ->
  exists w' tr,
    step (ACmd e (CAdd [p])) w = (w', OOk [], tr) /\
    (w_coll w' = false ->
     step (ACmd e1 (CCatFile false true [hex (blob_id data)])) w' = (w', OOk [data], []) /\
     step (ACmd e2 (CCatFile true false [hex (blob_id data)])) w' = (w', OOk [kind_s KBlob], []) /\
     step (ACmd e3 (CHashObject [p])) w' = (w', OOk [hex (blob_id data)], [])).
Proof.
  intros e e1 e2 e3 w x p data Hi Hx Hst Hig Hf Hlen Hold.
  destruct (cmd_add_file_readable x w p data Hst Hig Hf Hlen Hold) as (tr & Hr & Hall & Hg).
  exists (apply_effects tr w), tr. split.
  - rewrite (step_loaded e (CAdd [p]) w x); [|intro H; discriminate H | exact Hi | exact Hx].
    cbn [dispatch]. rewrite (Hr []). reflexivity.
  - intro Hcoll.
    pose proof (ctx_of_add_eff tr w x Hall Hcoll Hx) as Hx'.
    assert (Hi' : w_inited (apply_effects tr w) = true).
    { destruct (add_eff_trace_frame tr w Hall) as [_ (Hin & _)]. rewrite Hin. exact Hi. }
    rewrite !step_cat_file_eq, step_hash_object_eq, Hi', Hx'.
    assert (Hk : KBlob <> KTree) by (intro H; discriminate H).
    rewrite (cat_file_out_p _ _ _ _ Hg Hk), (cat_file_out_t _ _ _ _ Hg).
    destruct (add_eff_trace_file tr w p Hall) as [Hf' Hst'].
    cbn [hash_lines]. rewrite Hst', Hst. unfold file in Hf'. rewrite Hf', Hf.
    repeat split.
Qed.

(* ================================================================== *)
(** * 6. A closed example: content that looks like an object header *)

(* the bytes "blob 3\000abc" *)
Definition ex6_data : bytes := str "blob 3"%string ++ [c_nul] ++ str "abc"%string.
(* what `git hash-object` prints for a file with these ten bytes (computed
   with real Git: sha1 of "blob 10\0" ++ content) *)
Definition ex6_git_id : bytes := str "0b67adf29f64de29082bb2bdd19432de54d8b732"%string.
(* `git hash-object` of the empty file *)
Definition ex6_git_empty : bytes := str "e69de29bb2d1d6434b8b29ae775ad8c2e48c5391"%string.

Definition ex6_env : env := mkEnv 0 0.
Definition ex6_before : world :=
  Eval vm_compute in
    run [ACmd ex6_env CInit;
         AEdit (UWrite (str "f"%string) ex6_data);
         AEdit (UWrite (str "dir/copy"%string) ex6_data);
         AEdit (UWrite (str "empty"%string) []);
         AEdit (UWrite (str "nuls"%string) [c_nul; c_nul; c_nul])] w_empty.
Definition ex6_w : world :=
  Eval vm_compute in
    run [ACmd ex6_env (CAdd [str "f"%string]);
         ACmd ex6_env (CAdd [str "empty"%string; str "nuls"%string])] ex6_before.

Example ex6_content : ex6_data = [x62; x6c; x6f; x62; x20; x33; x00; x61; x62; x63].
Proof. vm_compute. reflexivity. Qed.

(* the model's id is Git's id *)
Example ex6_id_is_gits :
  hex (obj_id KBlob ex6_data) = ex6_git_id /\
  obj_id KBlob ex6_data = sha1 (str "blob 10"%string ++ [c_nul] ++ ex6_data) /\
  hex (obj_id KBlob []) = ex6_git_empty.
Proof. vm_compute. repeat split. Qed.

(* [hash-object] prints that id, for both paths with this content, in order *)
Example ex6_hash_object :
  step (ACmd ex6_env (CHashObject [str "f"%string; str "empty"%string; str "dir/copy"%string])) ex6_w
  = (ex6_w, OOk [ex6_git_id; ex6_git_empty; ex6_git_id], []).
Proof. vm_compute. reflexivity. Qed.

(* [cat-file -p] returns exactly the ten bytes, [cat-file -t] says "blob" *)
Example ex6_cat_file_p :
  step (ACmd ex6_env (CCatFile false true [ex6_git_id])) ex6_w = (ex6_w, OOk [ex6_data], []).
Proof. vm_compute. reflexivity. Qed.

Example ex6_cat_file_t :
  step (ACmd ex6_env (CCatFile true false [ex6_git_id])) ex6_w = (ex6_w, OOk [str "blob"%string], []).
Proof. vm_compute. reflexivity. Qed.

(* the empty file and the file of three NUL bytes come back as they are *)
Example ex6_cat_file_awkward :
  step (ACmd ex6_env (CCatFile false true [ex6_git_empty])) ex6_w = (ex6_w, OOk [[]], []) /\
  step (ACmd ex6_env (CCatFile false true [hex (obj_id KBlob [c_nul; c_nul; c_nul])])) ex6_w
  = (ex6_w, OOk [[c_nul; c_nul; c_nul]], []).
Proof. vm_compute. split; reflexivity. Qed.

(* the content was never added under the other path, yet it is the same object *)
Example ex6_one_object_per_content :
  length (w_objs ex6_w) = 3%nat /\ w_coll ex6_w = false.
Proof. vm_compute. split; reflexivity. Qed.

(* -t together with -p, a short id, an unknown id: refused, nothing changes *)
Example ex6_refusals :
  step (ACmd ex6_env (CCatFile true true [ex6_git_id])) ex6_w = (ex6_w, OErr, []) /\
  step (ACmd ex6_env (CCatFile false true [firstn 39 ex6_git_id])) ex6_w = (ex6_w, OErr, []) /\
  step (ACmd ex6_env (CCatFile false true [hex (obj_id KBlob [c_nul])])) ex6_w = (ex6_w, OErr, []) /\
  step (ACmd ex6_env (CHashObject [str "dir"%string])) ex6_w = (ex6_w, OErr, []) /\
  step (ACmd ex6_env (CHashObject [str "f"%string; str "absent"%string])) ex6_w = (ex6_w, OErr, []).
Proof. vm_compute. repeat split. Qed.

(* a file put under a wrong name in the object directory is not printed *)
Example ex6_misplaced_refused :
  let bad := set_objs ex6_w (st_set (w_objs ex6_w) (obj_id KBlob [c_nul]) (payload KBlob ex6_data)) false in
  step (ACmd ex6_env (CCatFile false true [hex (obj_id KBlob [c_nul])])) bad = (bad, OErr, []).
Proof. vm_compute. reflexivity. Qed.

(* the no-op hypothesis of [add_then_cat_file] is necessary: with the path
   staged under the id but the object file gone (someone emptied
   .goit/objects), [add] does nothing and [cat-file] has nothing to print *)
Example ex6_noop_needs_blob :
  let gone := set_objs ex6_w [] false in
  staged gone (str "f"%string) = Some (blob_id ex6_data) /\
  step (ACmd ex6_env (CAdd [str "f"%string])) gone = (gone, OOk [], []) /\
  step (ACmd ex6_env (CCatFile false true [ex6_git_id])) gone = (gone, OErr, []).
Proof. vm_compute. repeat split. Qed.

(* the hypotheses of [step_add_then_cat_file] are satisfiable: it applies to
   the world before the [add], with the header-like file *)
Example ex6_theorem_applies :
  exists w' tr,
    step (ACmd ex6_env (CAdd [str "f"%string])) ex6_before = (w', OOk [], tr) /\
    (w_coll w' = false ->
     step (ACmd ex6_env (CCatFile false true [hex (blob_id ex6_data)])) w' = (w', OOk [ex6_data], []) /\
     step (ACmd ex6_env (CCatFile true false [hex (blob_id ex6_data)])) w' = (w', OOk [kind_s KBlob], []) /\
     step (ACmd ex6_env (CHashObject [str "f"%string])) w' = (w', OOk [hex (blob_id ex6_data)], [])).
Proof.
  destruct (ctx_of ex6_before) as [x|] eqn:Hx; [|vm_compute in Hx; discriminate Hx].
  apply (step_add_then_cat_file ex6_env ex6_env ex6_env ex6_env ex6_before x).
  - vm_compute. reflexivity.
  - exact Hx.
  - vm_compute. reflexivity.
  - vm_compute in Hx. injection Hx as Hx. subst x. vm_compute. reflexivity.
  - vm_compute. reflexivity.
  - vm_compute. reflexivity.
  - intro H. vm_compute in H. discriminate H.
Qed.

(* ================================================================== *)
Print Assumptions cmd_hash_object_eq.
Print Assumptions hash_object_prints_id.
Print Assumptions hash_object_prints_ids.
Print Assumptions hash_object_same_content.
Print Assumptions blob_id_is_git_id.
Print Assumptions cmd_cat_file_eq.
Print Assumptions cat_file_sound.
Print Assumptions cat_file_integrity.
Print Assumptions cat_file_damaged_refused.
Print Assumptions put_obj_spec.
Print Assumptions put_obj_fault.
Print Assumptions put_obj_too_big.
Print Assumptions objects_never_lost.
Print Assumptions cat_file_stable.
Print Assumptions add_file_then_readable.
Print Assumptions add_then_cat_file_strong.
Print Assumptions add_then_cat_file.
Print Assumptions cmd_add_then_cat_file.
Print Assumptions step_cat_file_eq.
Print Assumptions step_hash_object_eq.
Print Assumptions step_add_then_cat_file.
Print Assumptions ex6_id_is_gits.
Print Assumptions ex6_hash_object.
Print Assumptions ex6_cat_file_p.
Print Assumptions ex6_theorem_applies.
