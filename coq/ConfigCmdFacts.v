(* ConfigCmdFacts.v — property C20 "configuration round trip and precedence"
   at COMMAND level ([cmd_config], [load_ctx], the gate of [cmd_commit]).

   1. [cfg_load_wf]   : whatever [cfg_load] accepts is a well-formed
                        configuration ([wf_cfg] of ConfigFacts.v); in particular
                        no key/value holds a newline or a TAB.
   2. [cmd_config_eq] : the exact fault-free behaviour of `config`, for all
                        arguments; [config_local_spec], [config_global_*_spec].
   3. [WfCfg]         : an invariant of every history (unconditionally);
                        [CfgGood] (both files readable and well formed) is kept
                        by every step whose `config` arguments are ok (by EVERY
                        step: CtxFacts.reachable_cfgs_load, since `config`
                        refuses an empty section name and line feeds:
                        [hostile_config_refused]; it also refuses a key the
                        loader would read back as another key:
                        [config_ambiguous_key_refused]); a file broken BY HAND:
                        [broken_config_refuses_everything].
   4. effective identity: local over global, at the level of [ctx_of].
   5. the commit gate and the identity recorded in the commit text.  *)
From Coq Require Import Strings.String Strings.Byte.
From Coq Require Import List Bool NArith ZArith Arith Lia ZifyBool ZifyNat ZifyN.
From Goit Require Import Bytes Sha1 Obj Refs Tree Index Regex GoRegex Commit Reflog Config Ignore World Repo.
From Goit Require Import BytesFacts RegexFacts ObjFacts CommitFacts ConfigFacts MonadFacts BranchFacts ExactFacts TotalFacts.
Import ListNotations.

#[local] Arguments sha1 : simpl never.

(* ================================================================== *)
(** * 0. Small facts about bytes *)

Lemma cc_trim_left_incl : forall s c, In c (trim_left s) -> In c s.
Proof.
  intro s. induction s as [|x r IH]; intros c Hin; cbn [trim_left] in Hin.
  - exact Hin.
  - destruct (is_space x) eqn:Ex; [right; apply IH; exact Hin | exact Hin].
Qed.

Lemma cc_trim_space_incl : forall s c, In c (trim_space s) -> In c s.
Proof.
  intros s c Hin. unfold trim_space in Hin. apply in_rev in Hin.
  apply cc_trim_left_incl in Hin. apply in_rev in Hin.
  apply cc_trim_left_incl in Hin. exact Hin.
Qed.

Lemma cc_trim_left_idem : forall s, trim_left (trim_left s) = trim_left s.
Proof.
  intro s. induction s as [|x r IH].
  - reflexivity.
  - cbn [trim_left]. destruct (is_space x) eqn:Ex.
    + exact IH.
    + cbn [trim_left]. rewrite Ex. reflexivity.
Qed.

Lemma cc_trim_left_snoc : forall a c, is_space c = false -> trim_left (a ++ [c]) = trim_left a ++ [c].
Proof.
  intros a c Hc. induction a as [|x r IH].
  - cbn [app trim_left]. rewrite Hc. reflexivity.
  - cbn [app trim_left]. destruct (is_space x) eqn:Ex; [exact IH | reflexivity].
Qed.

Lemma cc_trimmed_trim_space : forall s, trimmed (trim_space s).
Proof.
  intro s. unfold trimmed, trim_space. split.
  - pose proof (cc_trim_left_idem s) as Hfix.
    destruct (trim_left_fix_hd (trim_left s) Hfix) as [Hnil | [c [r [Hcr Hc]]]].
    + rewrite Hnil. reflexivity.
    + rewrite Hcr. cbn [rev]. rewrite (cc_trim_left_snoc (rev r) c Hc).
      rewrite rev_app_distr. cbn [rev app]. apply trim_left_nonspace. exact Hc.
  - rewrite rev_involutive. apply cc_trim_left_idem.
Qed.

Lemma cc_trim_space_idem : forall s, trim_space (trim_space s) = trim_space s.
Proof. intro s. apply trim_space_fix. apply cc_trimmed_trim_space. Qed.

Lemma cc_remove_tabs_incl : forall s c, In c (remove_tabs s) -> In c s.
Proof. intros s c Hin. unfold remove_tabs in Hin. apply filter_In in Hin. exact (proj1 Hin). Qed.

Lemma cc_remove_tabs_no_tab : forall s, ~ In c_tab (remove_tabs s).
Proof.
  intros s Hin. unfold remove_tabs in Hin. apply filter_In in Hin.
  destruct Hin as [_ Hneg]. rewrite beqb_refl in Hneg. discriminate Hneg.
Qed.

Lemma cc_firstn_incl : forall (n : nat) (l : bytes) c, In c (firstn n l) -> In c l.
Proof.
  intros n l c Hin. rewrite <- (firstn_skipn n l). apply in_or_app. left. exact Hin.
Qed.

Lemma cc_skipn_incl : forall (n : nat) (l : bytes) c, In c (skipn n l) -> In c l.
Proof.
  intros n l c Hin. rewrite <- (firstn_skipn n l). apply in_or_app. right. exact Hin.
Qed.

Lemma cc_drop_cr_incl : forall l c, In c (drop_cr l) -> In c l.
Proof.
  intros l c Hin. unfold drop_cr in Hin. destruct (rev l) as [|x r] eqn:Erev; [exact Hin|].
  destruct (beqb x c_cr) eqn:Ex; [|exact Hin].
  apply in_rev. rewrite Erev. right. apply in_rev in Hin. exact Hin.
Qed.

Lemma cc_scan_lines_aux_no_nl : forall s cur l,
  ~ In c_nl cur -> In l (scan_lines_aux cur s) -> ~ In c_nl l.
Proof.
  intro s. induction s as [|c r IH]; intros cur l Hcur Hin; cbn [scan_lines_aux] in Hin.
  - destruct cur as [|x cur']; [destruct Hin|]. destruct Hin as [Heq|[]]. subst l.
    intro Hnl. apply cc_drop_cr_incl in Hnl. apply in_rev in Hnl. exact (Hcur Hnl).
  - destruct (beqb c c_nl) eqn:Ec.
    + destruct Hin as [Heq|Hin].
      * subst l. intro Hnl. apply cc_drop_cr_incl in Hnl. apply in_rev in Hnl. exact (Hcur Hnl).
      * apply (IH [] l); [intros [] | exact Hin].
    + apply (IH (c :: cur) l); [|exact Hin]. apply beqb_neq in Ec.
      intros [Hc|Hc]; [apply Ec; exact Hc | exact (Hcur Hc)].
Qed.

Lemma cc_scan_lines_no_nl : forall s l, In l (scan_lines s) -> ~ In c_nl l.
Proof. intros s l Hin. apply (cc_scan_lines_aux_no_nl s [] l); [intros [] | exact Hin]. Qed.

(* the guard of `config` (Repo.config_args_ok), read as propositions *)
Lemma cc_contains_byte_iff : forall c s, contains_byte c s = false <-> ~ In c s.
Proof.
  intros c s. induction s as [|x r IH]; cbn [contains_byte In].
  - split; [intros _ [] | reflexivity].
  - rewrite orb_false_iff, IH. split.
    + intros [Hx Hr] [Hc|Hc]; [subst x; rewrite beqb_refl in Hx; discriminate Hx | exact (Hr Hc)].
    + intro Hn. split.
      * destruct (beqb x c) eqn:E; [|reflexivity]. apply beqb_eq in E. contradiction Hn. left. exact E.
      * intro Hc. apply Hn. right. exact Hc.
Qed.

Lemma cc_split2_join : forall sep key a b, split_all sep key = [a; b] -> key = a ++ sep :: b.
Proof.
  intros sep key a b H. rewrite <- (lf_join_split_all sep key), H. reflexivity.
Qed.

Lemma config_lines_ok_iff : forall key value sec k,
  split_all x2e key = [sec; k] ->
  (config_lines_ok sec key value = true <->
   sec <> [] /\ ~ In c_nl sec /\ ~ In c_nl k /\ ~ In c_nl value).
Proof.
  intros key value sec k Hsp. pose proof (cc_split2_join x2e key sec k Hsp) as Hk.
  unfold config_lines_ok. rewrite !andb_true_iff, !negb_true_iff, !cc_contains_byte_iff. split.
  - intros [[Hne Hkey] Hv]. split; [intro E; subst sec; discriminate Hne|].
    split; [intro Hin; apply Hkey; rewrite Hk; apply in_or_app; left; exact Hin|].
    split; [intro Hin; apply Hkey; rewrite Hk; apply in_or_app; right; right; exact Hin | exact Hv].
  - intros (Hne & Hs & Hkk & Hv). split; [split|exact Hv].
    + destruct sec; [contradiction Hne; reflexivity | reflexivity].
    + rewrite Hk. intro Hin. apply in_app_or in Hin.
      destruct Hin as [Hin|[Hin|Hin]]; [exact (Hs Hin) | discriminate Hin | exact (Hkk Hin)].
Qed.

(* the second check of the guard: no '=', no TAB, no white space around the key *)
Lemma config_key_ok_iff : forall k,
  config_key_ok k = true <-> ~ In x3d k /\ ~ In c_tab k /\ trim_space k = k.
Proof.
  intro k. unfold config_key_ok.
  rewrite !andb_true_iff, !negb_true_iff, !cc_contains_byte_iff, bytes_eqb_eq. tauto.
Qed.

(* the whole guard: a loadable section name, a key the loader reads back as
   itself ([ok_key]: no line feed, no TAB, no '=', no white space around it) and
   a value without line feed *)
Lemma config_args_ok_iff : forall key value sec k,
  split_all x2e key = [sec; k] ->
  (config_args_ok sec k key value = true <->
   sec <> [] /\ ~ In c_nl sec /\ ok_key k /\ ~ In c_nl value).
Proof.
  intros key value sec k Hsp. unfold config_args_ok.
  rewrite andb_true_iff, (config_lines_ok_iff key value sec k Hsp), config_key_ok_iff.
  unfold ok_key, ok_val. tauto.
Qed.

(* the arguments in the domain of C20 pass the guard *)
Lemma ok_args_guard : forall key value sec k,
  split_all x2e key = [sec; k] -> ok_sec sec -> ok_key k -> ok_val value ->
  config_args_ok sec k key value = true.
Proof.
  intros key value sec k Hsp [Hne Hs] Hk [Hv _].
  apply (config_args_ok_iff key value sec k Hsp). repeat split; try assumption; apply Hk.
Qed.

(* ================================================================== *)
(** * 1. What the loader accepts is well formed *)

Lemma sec_set_wf : forall c s m, wf_cfg c -> wf_sec (s, m) -> wf_cfg (sec_set c s m).
Proof.
  intros c s m [Hnd Hall] Hsm. rewrite sec_set_aset. split.
  - apply aset_NoDup. exact Hnd.
  - apply aset_Forall; assumption.
Qed.

Lemma sec_get_wf : forall c s m, wf_cfg c -> sec_get c s = Some m -> wf_sec (s, m).
Proof.
  intros c s m [_ Hall] Hget. rewrite sec_get_aget in Hget. apply aget_some_in in Hget.
  rewrite Forall_forall in Hall. apply Hall. exact Hget.
Qed.

Lemma kv_set_wf : forall s m k v, wf_sec (s, m) -> ok_key k -> ok_val v -> wf_sec (s, kv_set m k v).
Proof.
  intros s m k v [Hs [Hnd Hall]] Hk Hv. cbn [fst snd] in *. split; [exact Hs|].
  cbn [snd]. rewrite kv_set_aset. split.
  - apply aset_NoDup. exact Hnd.
  - apply aset_Forall; [exact Hall | split; assumption].
Qed.

Lemma wf_cfg_nil : wf_cfg [].
Proof. split; constructor. Qed.

(* the two sides of a key/value line, as the loader stores them *)
Lemma loaded_kv_ok : forall l k v,
  ~ In c_nl l -> split1 x3d (remove_tabs l) = (k, Some v) ->
  ok_key (trim_space k) /\ ok_val (trim_space v).
Proof.
  intros l k v Hnl Hsp. apply split1_inv_some in Hsp. destruct Hsp as [Heq Hke].
  assert (Hk_in : forall c, In c k -> In c (remove_tabs l)).
  { intros c Hc. rewrite Heq. apply in_or_app. left. exact Hc. }
  assert (Hv_in : forall c, In c v -> In c (remove_tabs l)).
  { intros c Hc. rewrite Heq. apply in_or_app. right. right. exact Hc. }
  split.
  - split; [split; [|split]|].
    + intro Hin. apply cc_trim_space_incl in Hin. apply Hk_in in Hin.
      apply cc_remove_tabs_incl in Hin. exact (Hnl Hin).
    + intro Hin. apply cc_trim_space_incl in Hin. apply Hk_in in Hin.
      exact (cc_remove_tabs_no_tab l Hin).
    + apply cc_trim_space_idem.
    + intro Hin. apply cc_trim_space_incl in Hin. exact (Hke Hin).
  - split; [|split].
    + intro Hin. apply cc_trim_space_incl in Hin. apply Hv_in in Hin.
      apply cc_remove_tabs_incl in Hin. exact (Hnl Hin).
    + intro Hin. apply cc_trim_space_incl in Hin. apply Hv_in in Hin.
      exact (cc_remove_tabs_no_tab l Hin).
    + apply cc_trim_space_idem.
Qed.

(* the name between the brackets of a section line *)
Lemma loaded_sec_ok : forall l,
  ~ In c_nl l -> Nat.leb (length l) 2 = false ->
  ok_sec (firstn (length l - 2) (skipn 1 l)).
Proof.
  intros l Hnl Hlen. apply Nat.leb_gt in Hlen. split.
  - intro Hnil. apply (f_equal (@length byte)) in Hnil.
    rewrite firstn_length, skipn_length in Hnil. cbn [length] in Hnil. lia.
  - intro Hin. apply cc_firstn_incl in Hin. apply cc_skipn_incl in Hin. exact (Hnl Hin).
Qed.

Lemma cfg_load_lines_wf : forall ls c cur c',
  (forall l, In l ls -> ~ In c_nl l) -> wf_cfg c ->
  (forall s, cur = Some s -> ok_sec s) ->
  cfg_load_lines ls c cur = Some c' -> wf_cfg c'.
Proof.
  intro ls. induction ls as [|l r IH]; intros c cur c' Hls Hc Hcur Hload; cbn [cfg_load_lines] in Hload.
  - injection Hload as Heq. subst c'. exact Hc.
  - assert (Hr : forall l0, In l0 r -> ~ In c_nl l0).
    { intros l0 Hl0. apply Hls. right. exact Hl0. }
    assert (Hl : ~ In c_nl l). { apply Hls. left. reflexivity. }
    destruct (re_search re_identRegexp l) eqn:Ere.
    + destruct (Nat.leb (length l) 2) eqn:Elen; [discriminate Hload|].
      pose proof (loaded_sec_ok l Hl Elen) as Hsec.
      apply (IH _ _ _ Hr) in Hload; [exact Hload| |].
      * apply sec_set_wf; [exact Hc|]. split; [exact Hsec|]. split; constructor.
      * intros s Hs. injection Hs as Hs. subst s. exact Hsec.
    + destruct (is_nil (trim_space l)) eqn:Eblank.
      * apply (IH _ _ _ Hr Hc Hcur Hload).
      * destruct (split1 x3d (remove_tabs l)) as [k ov] eqn:Esp.
        destruct ov as [v|]; [|discriminate Hload].
        destruct cur as [s|]; [|discriminate Hload].
        destruct (loaded_kv_ok l k v Hl Esp) as [Hk Hv].
        apply (IH _ _ _ Hr) in Hload; [exact Hload| |exact Hcur].
        apply sec_set_wf; [exact Hc|]. apply kv_set_wf; [|exact Hk|exact Hv].
        destruct (sec_get c s) as [m|] eqn:Eget.
        -- apply (sec_get_wf c s m Hc Eget).
        -- split; [apply Hcur; reflexivity|]. split; constructor.
Qed.

(* MAIN (item 5): every configuration the loader returns is well formed: the
   section names are distinct, non-empty and newline-free (they MAY hold TABs,
   '[' , ']' and blanks: see [ex_section_with_tab]); within a section the keys
   are distinct; every key and value is free of newlines and TABs and has no
   leading/trailing white space; a key has no '='. *)
Theorem cfg_load_wf : forall b c, cfg_load b = Some c -> wf_cfg c.
Proof.
  intros b c Hload. unfold cfg_load in Hload.
  apply (cfg_load_lines_wf (scan_lines b) [] None c); [|exact wf_cfg_nil| |exact Hload].
  - intros l Hl. apply (cc_scan_lines_no_nl b l Hl).
  - intros s Hs. discriminate Hs.
Qed.

(* the same, spelled out *)
Corollary cfg_load_clean : forall b c, cfg_load b = Some c ->
  forall s m, sec_get c s = Some m ->
    s <> [] /\ ~ In c_nl s /\
    forall k v, kv_get m k = Some v ->
      ~ In c_nl k /\ ~ In c_tab k /\ ~ In x3d k /\ trim_space k = k /\
      ~ In c_nl v /\ ~ In c_tab v /\ trim_space v = v.
Proof.
  intros b c Hload s m Hget. pose proof (cfg_load_wf b c Hload) as Hwf.
  destruct (sec_get_wf c s m Hwf Hget) as [[Hne Hnl] [_ Hall]]. cbn [fst snd] in *.
  split; [exact Hne|]. split; [exact Hnl|].
  intros k v Hkv. rewrite kv_get_aget in Hkv. apply aget_some_in in Hkv.
  rewrite Forall_forall in Hall. destruct (Hall (k, v) Hkv) as [[[Hk1 [Hk2 Hk3]] Hk4] [Hv1 [Hv2 Hv3]]].
  cbn [fst snd] in *. repeat split; assumption.
Qed.

(* a section name may hold a TAB (and brackets): the loader keeps it *)
Example ex_section_with_tab :
  cfg_load ([x5b; x61; x09; x5d; x5b; x5d; x0a] ++ str "k = v"%string ++ [x0a])
  = Some [([x61; x09; x5d; x5b], [(str "k"%string, str "v"%string)])].
Proof. vm_compute. reflexivity. Qed.

(* whatever `config` writes, the next process loads a well-formed
   configuration or refuses the file *)
Definition good_st (s : cfgst) : Prop := forall c, cfg_of s = Some c -> wf_cfg c.

Lemma good_st_written : forall c, good_st (cfg_written c).
Proof. intros c c' Hc. cbn [cfg_written cfg_of] in Hc. exact (cfg_load_wf _ _ Hc). Qed.

Lemma good_st_absent : good_st CfgAbsent.
Proof. intros c Hc. cbn [cfg_of] in Hc. injection Hc as Hc. subst c. exact wf_cfg_nil. Qed.

Lemma good_st_empty : good_st (CfgFile (Some [])).
Proof. intros c Hc. cbn [cfg_of] in Hc. injection Hc as Hc. subst c. exact wf_cfg_nil. Qed.

(* ================================================================== *)
(** * 2. `config`, evaluated exactly *)

(* the file-system writes of one `config` call; [None]: the call is refused
   (wrong number of arguments, a key that is not <section>.<key>, an empty
   section name, a line feed in the key or the value, or a key with '=', a TAB
   or white space around it) *)
Definition config_trace (w : world) (x : ctx) (global : bool) (args : list bytes) : option (list effect) :=
  match args with
  | [key; value] =>
      match split_all x2e key with
      | [sec; k] =>
          if config_args_ok sec k key value then
            Some (if global then
                    (match w_gcfg w with CfgAbsent => [ESetGcfg (CfgFile (Some []))] | CfgFile _ => [] end)
                    ++ [ESetGcfg (cfg_written (cfg_add (x_g x) sec k value))]
                  else [ESetLcfg (cfg_written (cfg_add (x_l x) sec k value))])
          else None
      | _ => None
      end
  | _ => None
  end.

Lemma cmd_config_eq : forall x g args w t,
  cmd_config x g args (mkMS w t None) =
  match config_trace w x g args with
  | Some tr => (Ok [], mkMS (apply_effects tr w) (t ++ tr) None)
  | None => (Err, mkMS w t None)
  end.
Proof.
  intros x g args w t. unfold cmd_config, config_trace.
  destruct args as [|key [|value [|a3 ar]]]; try reflexivity.
  destruct (split_all x2e key) as [|sec [|k [|s3 sr]]]; try reflexivity.
  rewrite ev_bind_guard.
  destruct (config_args_ok sec k key value); [|reflexivity].
  destruct g.
  - ev. destruct (w_gcfg w) as [|o] eqn:Eg.
    + ev. cbn [app]. rewrite <- app_assoc. reflexivity.
    + ev. reflexivity.
  - ev. reflexivity.
Qed.

(* at the level of [step], for a repository that loads *)
Theorem step_config_eq : forall e g args w x,
  w_inited w = true -> ctx_of w = Some x ->
  step (ACmd e (CConfig g args)) w =
  match config_trace w x g args with
  | Some tr => (apply_effects tr w, OOk [], tr)
  | None => (w, OErr, [])
  end.
Proof.
  intros e g args w x Hi Hx.
  rewrite (step_loaded e (CConfig g args) w x); [|discriminate|exact Hi|exact Hx].
  cbn [dispatch]. rewrite cmd_config_eq.
  destruct (config_trace w x g args) as [tr|]; reflexivity.
Qed.

Lemma ctx_of_cfgs : forall w x, ctx_of w = Some x ->
  cfg_of (w_lcfg w) = Some (x_l x) /\ cfg_of (w_gcfg w) = Some (x_g x).
Proof.
  intros w x Hx. unfold ctx_of in Hx.
  destruct (cfg_of (w_gcfg w)) as [g|]; [|discriminate Hx].
  destruct (cfg_of (w_lcfg w)) as [l|]; [|discriminate Hx].
  destruct (head_commit w) as [hc|]; [|discriminate Hx].
  destruct (ign_load _) as [pats|]; [|discriminate Hx].
  injection Hx as Hx. subst x. split; reflexivity.
Qed.

(* what the rest of the context needs in order to load: nothing about configs *)
Definition rest_loads (w : world) : Prop :=
  head_commit w <> None /\ ign_load (am_get (w_files w) (str ".goitignore"%string)) <> None.

Lemma ctx_of_some : forall w l g,
  cfg_of (w_lcfg w) = Some l -> cfg_of (w_gcfg w) = Some g -> rest_loads w ->
  exists x, ctx_of w = Some x /\ x_l x = l /\ x_g x = g.
Proof.
  intros w l g Hl Hg [Hh Hp]. unfold ctx_of. rewrite Hl, Hg.
  destruct (head_commit w) as [hc|]; [|contradiction Hh; reflexivity].
  destruct (ign_load _) as [pats|]; [|contradiction Hp; reflexivity].
  exists (mkCtx l g hc pats). repeat split.
Qed.

Lemma ctx_of_rest : forall w x, ctx_of w = Some x -> rest_loads w.
Proof.
  intros w x Hx. unfold ctx_of in Hx.
  destruct (cfg_of (w_gcfg w)) as [g|]; [|discriminate Hx].
  destruct (cfg_of (w_lcfg w)) as [l|]; [|discriminate Hx].
  split.
  - destruct (head_commit w); [discriminate | discriminate Hx].
  - destruct (head_commit w); [|discriminate Hx]. destruct (ign_load _); [discriminate | discriminate Hx].
Qed.

(* `config` touches neither the branches, the objects nor the work tree:
   what the context needs besides the two configurations is unaffected *)
Definition cfg_eff (e : effect) : Prop :=
  match e with ESetLcfg _ | ESetGcfg _ => True | _ => False end.

Lemma cfg_eff_frame : forall e w, cfg_eff e ->
  w_inited (apply_effect e w) = w_inited w /\ w_head (apply_effect e w) = w_head w /\
  w_refs (apply_effect e w) = w_refs w /\ w_index (apply_effect e w) = w_index w /\
  w_objs (apply_effect e w) = w_objs w /\ w_coll (apply_effect e w) = w_coll w /\
  w_hlog (apply_effect e w) = w_hlog w /\ w_blogs (apply_effect e w) = w_blogs w /\
  w_files (apply_effect e w) = w_files w /\ w_dirs (apply_effect e w) = w_dirs w.
Proof. intros e w He. destruct e; try contradiction He; repeat split; reflexivity. Qed.

(* ---------- item 1: the specifications ---------- *)

(* the world after the call: exactly one field differs *)
Record config_post (w : world) (lcfg' gcfg' : cfgst) (w' : world) : Prop := {
  cp_world : w' = mkW (w_inited w) (w_head w) (w_refs w) (w_index w) (w_objs w) (w_coll w)
                      (w_hlog w) (w_blogs w) lcfg' gcfg' (w_files w) (w_dirs w)
}.

(* the new configuration holds the value; every other (section, key) is as before *)
Definition cfg_updated (l l' : cfg) (sec k value : bytes) : Prop :=
  wf_cfg l' /\ cfg_lookup l' sec k = Some value /\
  (forall s' k', (s', k') <> (sec, k) -> cfg_lookup l' s' k' = cfg_lookup l s' k') /\
  (forall s', sec_get l s' <> None -> sec_get l' s' <> None).

Lemma cfg_add_updated : forall l sec k value,
  wf_cfg l -> ok_sec sec -> ok_key k -> ok_val value ->
  cfg_updated l (cfg_add l sec k value) sec k value.
Proof.
  intros l sec k value Hwf Hs Hk Hv. split; [apply cfg_add_wf; assumption|].
  split; [apply cfg_add_get|]. split.
  - intros s' k' Hne. apply cfg_add_frame. exact Hne.
  - intros s' Hsome. apply cfg_add_keeps_sections. exact Hsome.
Qed.

(* the command proper, as a total run with its exact trace *)
Theorem cmd_config_spec : forall x w l key value sec k,
  x_l x = l -> wf_cfg l ->
  split_all x2e key = [sec; k] -> ok_sec sec -> ok_key k -> ok_val value ->
  runs (cmd_config x false [key; value]) w (Ok [])
       [ESetLcfg (CfgFile (Some (cfg_add l sec k value)))].
Proof.
  intros x w l key value sec k Hl Hwf Hsp Hs Hk Hv t. rewrite cmd_config_eq.
  unfold config_trace. rewrite Hsp, (ok_args_guard key value sec k Hsp Hs Hk Hv), Hl.
  rewrite (cfg_written_wf _ (cfg_add_wf l sec k value Hwf Hs Hk Hv)). reflexivity.
Qed.

Theorem cmd_config_global_spec : forall x w g key value sec k,
  x_g x = g -> wf_cfg g ->
  split_all x2e key = [sec; k] -> ok_sec sec -> ok_key k -> ok_val value ->
  runs (cmd_config x true [key; value]) w (Ok [])
       ((match w_gcfg w with CfgAbsent => [ESetGcfg (CfgFile (Some []))] | CfgFile _ => [] end)
        ++ [ESetGcfg (CfgFile (Some (cfg_add g sec k value)))]).
Proof.
  intros x w g key value sec k Hg Hwf Hsp Hs Hk Hv t. rewrite cmd_config_eq.
  unfold config_trace. rewrite Hsp, (ok_args_guard key value sec k Hsp Hs Hk Hv), Hg.
  rewrite (cfg_written_wf _ (cfg_add_wf g sec k value Hwf Hs Hk Hv)). reflexivity.
Qed.

(* local: `goit config <sec>.<k> <value>` *)
Theorem config_local_spec : forall e w l key value sec k,
  w_inited w = true -> rest_loads w -> cfg_of (w_gcfg w) <> None ->
  w_lcfg w = CfgFile (Some l) -> wf_cfg l ->
  split_all x2e key = [sec; k] -> ok_sec sec -> ok_key k -> ok_val value ->
  let l' := cfg_add l sec k value in
  step (ACmd e (CConfig false [key; value])) w
  = (set_lcfg w (CfgFile (Some l')), OOk [], [ESetLcfg (CfgFile (Some l'))])
  /\ cfg_of (w_lcfg (set_lcfg w (CfgFile (Some l')))) = Some l'
  /\ cfg_updated l l' sec k value
  /\ w_gcfg (set_lcfg w (CfgFile (Some l'))) = w_gcfg w
  /\ config_post w (CfgFile (Some l')) (w_gcfg w) (set_lcfg w (CfgFile (Some l'))).
Proof.
  intros e w l key value sec k Hi Hrest Hg Hl Hwf Hsp Hs Hk Hv l'.
  destruct (cfg_of (w_gcfg w)) as [g|] eqn:Eg; [|contradiction Hg; reflexivity].
  assert (Hl' : cfg_of (w_lcfg w) = Some l) by (rewrite Hl; reflexivity).
  destruct (ctx_of_some w l g Hl' Eg Hrest) as (x & Hx & Hxl & Hxg).
  split.
  - rewrite (step_config_eq e false _ w x Hi Hx). unfold config_trace. rewrite Hsp, (ok_args_guard key value sec k Hsp Hs Hk Hv), Hxl.
    rewrite (cfg_written_wf _ (cfg_add_wf l sec k value Hwf Hs Hk Hv)). reflexivity.
  - split; [reflexivity|]. split; [apply cfg_add_updated; assumption|].
    split; [reflexivity|]. constructor. reflexivity.
Qed.

(* global, the file exists: `goit config --global <sec>.<k> <value>` *)
Theorem config_global_present_spec : forall e w g key value sec k,
  w_inited w = true -> rest_loads w -> cfg_of (w_lcfg w) <> None ->
  w_gcfg w = CfgFile (Some g) -> wf_cfg g ->
  split_all x2e key = [sec; k] -> ok_sec sec -> ok_key k -> ok_val value ->
  let g' := cfg_add g sec k value in
  step (ACmd e (CConfig true [key; value])) w
  = (set_gcfg w (CfgFile (Some g')), OOk [], [ESetGcfg (CfgFile (Some g'))])
  /\ cfg_of (w_gcfg (set_gcfg w (CfgFile (Some g')))) = Some g'
  /\ cfg_updated g g' sec k value
  /\ w_lcfg (set_gcfg w (CfgFile (Some g'))) = w_lcfg w
  /\ config_post w (w_lcfg w) (CfgFile (Some g')) (set_gcfg w (CfgFile (Some g'))).
Proof.
  intros e w g key value sec k Hi Hrest Hl Hg Hwf Hsp Hs Hk Hv g'.
  destruct (cfg_of (w_lcfg w)) as [l|] eqn:El; [|contradiction Hl; reflexivity].
  assert (Hg' : cfg_of (w_gcfg w) = Some g) by (rewrite Hg; reflexivity).
  destruct (ctx_of_some w l g El Hg' Hrest) as (x & Hx & Hxl & Hxg).
  split.
  - rewrite (step_config_eq e true _ w x Hi Hx). unfold config_trace. rewrite Hsp, (ok_args_guard key value sec k Hsp Hs Hk Hv), Hxg, Hg.
    rewrite (cfg_written_wf _ (cfg_add_wf g sec k value Hwf Hs Hk Hv)). reflexivity.
  - split; [reflexivity|]. split; [apply cfg_add_updated; assumption|].
    split; [reflexivity|]. constructor. reflexivity.
Qed.

(* global, no file yet: it is first created empty, then written *)
Theorem config_global_absent_spec : forall e w key value sec k,
  w_inited w = true -> rest_loads w -> cfg_of (w_lcfg w) <> None ->
  w_gcfg w = CfgAbsent ->
  split_all x2e key = [sec; k] -> ok_sec sec -> ok_key k -> ok_val value ->
  let g' := cfg_add [] sec k value in
  step (ACmd e (CConfig true [key; value])) w
  = (set_gcfg w (CfgFile (Some g')), OOk [],
     [ESetGcfg (CfgFile (Some [])); ESetGcfg (CfgFile (Some g'))])
  /\ cfg_of (w_gcfg (set_gcfg w (CfgFile (Some g')))) = Some g'
  /\ cfg_updated [] g' sec k value
  /\ w_lcfg (set_gcfg w (CfgFile (Some g'))) = w_lcfg w
  /\ config_post w (w_lcfg w) (CfgFile (Some g')) (set_gcfg w (CfgFile (Some g'))).
Proof.
  intros e w key value sec k Hi Hrest Hl Hg Hsp Hs Hk Hv g'.
  destruct (cfg_of (w_lcfg w)) as [l|] eqn:El; [|contradiction Hl; reflexivity].
  assert (Hg' : cfg_of (w_gcfg w) = Some []) by (rewrite Hg; reflexivity).
  destruct (ctx_of_some w l [] El Hg' Hrest) as (x & Hx & Hxl & Hxg).
  split.
  - rewrite (step_config_eq e true _ w x Hi Hx). unfold config_trace. rewrite Hsp, (ok_args_guard key value sec k Hsp Hs Hk Hv), Hxg, Hg.
    rewrite (cfg_written_wf _ (cfg_add_wf [] sec k value wf_cfg_nil Hs Hk Hv)). reflexivity.
  - split; [reflexivity|]. split; [apply cfg_add_updated; [exact wf_cfg_nil|assumption..]|].
    split; [reflexivity|]. constructor. reflexivity.
Qed.

(* ================================================================== *)
(** * 3. Only `config` and `init` write configurations *)

(* every effect but the three that write a configuration file *)
Definition cfg_static (e : effect) : Prop :=
  match e with ESetLcfg _ | ESetGcfg _ | EInit => False | _ => True end.

Lemma cfg_static_frame : forall e w, cfg_static e ->
  w_lcfg (apply_effect e w) = w_lcfg w /\ w_gcfg (apply_effect e w) = w_gcfg w.
Proof.
  intros e w He. destruct e; try contradiction He; autorewrite with wfields; split; reflexivity.
Qed.

Section StaticCommands.
  Variable Inv : world -> Prop.
  Variable G : world -> effect -> Prop.
  Hypothesis Hstatic : forall e w, cfg_static e -> Inv w -> G w e /\ Inv (apply_effect e w).

  Lemma emit_cfg_static : forall e, cfg_static e -> emits Inv G (emit e).
  Proof. intros e He. apply emits_emit. intros w Hi. apply Hstatic; assumption. Qed.

  Ltac cstep :=
    first
    [ assumption
    | lazymatch goal with
      | |- emits _ _ (bind _ _) => apply emits_bind; [ | intro ]
      | |- emits _ _ (ret _) => apply emits_ret
      | |- emits _ _ fail => apply emits_fail
      | |- emits _ _ getw => apply emits_getw
      | |- emits _ _ (emit _) => apply emit_cfg_static; exact Logic.I
      | |- emits _ _ (of_opt _) => apply emits_of_opt
      | |- emits _ _ (guard _) => apply emits_guard
      | |- emits _ _ (iterM _ _) => apply emits_iterM; intros ? _
      | |- emits _ _ (let _ := _ in _) => cbv zeta
      | |- emits _ _ (match ?x with _ => _ end) => destruct x; cbv beta iota
      | |- emits _ _ ((fix f (l : list _) {struct l} : M _ := _) ?args) =>
          induction args; cbv beta iota
      end ].
  Ltac csteps := repeat cstep.

  Lemma put_obj_cst : forall k d, emits Inv G (put_obj k d).
  Proof. intros k d. unfold put_obj. csteps. Qed.
  Lemma wt_put_cst : forall p data, emits Inv G (wt_put p data).
  Proof. intros p data. unfold wt_put. csteps. Qed.
  Lemma head_tree_nodes_cst : forall c, emits Inv G (head_tree_nodes c).
  Proof. intros c. unfold head_tree_nodes. csteps. Qed.
  Lemma add_file_cst : forall p, emits Inv G (add_file p).
  Proof. intros p. pose proof put_obj_cst as Hput. unfold add_file. csteps; apply Hput. Qed.
  Lemma cmd_add_cst : forall c args, emits Inv G (cmd_add c args).
  Proof. intros c args. pose proof add_file_cst as Hadd. unfold cmd_add. csteps; apply Hadd. Qed.
  Lemma rm_one_cst : forall p, emits Inv G (rm_one p).
  Proof. intros p. unfold rm_one. csteps. Qed.
  Lemma cmd_rm_cst : forall args, emits Inv G (cmd_rm args).
  Proof. intros args. pose proof rm_one_cst as Hrm. unfold cmd_rm. csteps; try apply Hrm. Qed.
  Lemma do_commit_cst : forall e c msg, emits Inv G (do_commit e c msg).
  Proof. intros e c msg. pose proof put_obj_cst as Hput. unfold do_commit. csteps; apply Hput. Qed.
  Lemma cmd_commit_cst : forall e c msg, emits Inv G (cmd_commit e c msg).
  Proof.
    intros e c msg. pose proof do_commit_cst as Hdo. pose proof head_tree_nodes_cst as Hht.
    unfold cmd_commit. csteps; first [apply Hdo | apply Hht].
  Qed.
  Lemma cmd_status_cst : forall c, emits Inv G (cmd_status c).
  Proof. intros c. pose proof head_tree_nodes_cst as Hht. unfold cmd_status. csteps; apply Hht. Qed.
  Lemma cmd_branch_cst : forall e c args lst rn dl, emits Inv G (cmd_branch e c args lst rn dl).
  Proof. intros e c args lst rn dl. unfold cmd_branch. csteps. Qed.
  Lemma head_update_cst : forall name, emits Inv G (head_update name).
  Proof. intros name. unfold head_update. csteps. Qed.
  Lemma cmd_switch_cst : forall e c args cr, emits Inv G (cmd_switch e c args cr).
  Proof. intros e c args cr. pose proof head_update_cst as Hhu. unfold cmd_switch. csteps; apply Hhu. Qed.
  Lemma cmd_reset_cst : forall e c s m h args, emits Inv G (cmd_reset e c s m h args).
  Proof. intros e c s m h args. pose proof wt_put_cst as Hwp. unfold cmd_reset. csteps; apply Hwp. Qed.
  Lemma restore_wd_cst : forall p, emits Inv G (restore_wd p).
  Proof. intros p. pose proof wt_put_cst as Hwp. unfold restore_wd. csteps; apply Hwp. Qed.
  Lemma restore_index_cst : forall ns p, emits Inv G (restore_index ns p).
  Proof. intros ns p. unfold restore_index. csteps. Qed.
  Lemma cmd_restore_cst : forall c st args, emits Inv G (cmd_restore c st args).
  Proof.
    intros c st args. pose proof restore_wd_cst as Hwd. pose proof restore_index_cst as Hix.
    pose proof head_tree_nodes_cst as Hht.
    unfold cmd_restore. csteps; first [apply Hwd | apply Hix | apply Hht].
  Qed.
  Lemma cmd_update_ref_cst : forall args, emits Inv G (cmd_update_ref args).
  Proof. intros args. pose proof head_update_cst as Hhu. unfold cmd_update_ref. csteps; apply Hhu. Qed.
  Lemma cmd_log_cst : forall c n, emits Inv G (cmd_log c n).
  Proof. intros c n. unfold cmd_log. csteps. Qed.
  Lemma cmd_reflog_cst : emits Inv G cmd_reflog.
  Proof. unfold cmd_reflog. csteps. Qed.
  Lemma cmd_cat_file_cst : forall t p args, emits Inv G (cmd_cat_file t p args).
  Proof. intros t p args. unfold cmd_cat_file. csteps. Qed.
  Lemma cmd_hash_object_cst : forall args, emits Inv G (cmd_hash_object args).
  Proof. intros args. unfold cmd_hash_object. csteps. Qed.
  Lemma cmd_ls_files_cst : forall s, emits Inv G (cmd_ls_files s).
  Proof. intros s. unfold cmd_ls_files. csteps. Qed.
  Lemma cmd_rev_parse_cst : forall args, emits Inv G (cmd_rev_parse args).
  Proof. intros args. unfold cmd_rev_parse. csteps. Qed.
  Lemma cmd_write_tree_cst : emits Inv G cmd_write_tree.
  Proof. pose proof put_obj_cst as Hput. unfold cmd_write_tree. csteps; apply Hput. Qed.
End StaticCommands.

(* [load_ctx] reads only, and what it returns is [ctx_of] of the world *)
Lemma load_ctx_hoare : forall (Inv : world -> Prop) (G : world -> effect -> Prop) w,
  hoare Inv G (eq w) load_ctx (fun x w' => w' = w /\ ctx_of w = Some x).
Proof.
  intros Inv G w.
  apply (hoare_noeffect Inv G _ (eq w) load_ctx
           (fun s => match ctx_of (ms_w s) with Some x => Ok x | None => Err end)).
  - intro s. apply load_ctx_eq.
  - intros s a _ Hw Hr. rewrite <- Hw in Hr. split; [symmetry; exact Hw|].
    destruct (ctx_of w) as [x|]; [injection Hr as Hr; subst a; reflexivity | discriminate Hr].
Qed.

(* [run_cmd] from the static commands and a specification of `config` *)
Lemma run_cmd_emits_cfg : forall (Inv : world -> Prop) (G : world -> effect -> Prop) e c,
  (forall e0 w, cfg_static e0 -> Inv w -> G w e0 /\ Inv (apply_effect e0 w)) ->
  (c = CInit -> forall w, Inv w -> G w EInit /\ Inv (apply_effect EInit w)) ->
  (forall g args, c = CConfig g args -> forall x w, Inv w -> ctx_of w = Some x ->
     hoare Inv G (eq w) (cmd_config x g args) (fun _ _ => True)) ->
  emits Inv G (run_cmd e c).
Proof.
  intros Inv G e c Hst Hinit Hcfg. unfold run_cmd. apply emits_bind_getw. intros w Hi.
  assert (Hstat : forall (m : M (list bytes)) w0, emits Inv G m -> hoare Inv G (eq w0) m (fun _ _ => True)).
  { intros m w0 Hm. apply hoare_at with (P := fun _ : world => True); [apply emits_hoare; exact Hm | exact Logic.I]. }
  destruct c;
    [ unfold cmd_init; hsteps; [apply (Hinit eq_refl); assumption | exact Logic.I] | .. ];
    (hstep;
     apply at_bind_call with (P := eq w) (R := fun x w' => w' = w /\ ctx_of w = Some x);
       [apply load_ctx_hoare | reflexivity |]; intros x w' _ [Hw' Hx]; subst w').
  - apply (Hcfg global args eq_refl x w Hi Hx).
  - apply Hstat. apply cmd_add_cst; exact Hst.
  - apply Hstat. apply cmd_rm_cst; exact Hst.
  - apply Hstat. apply cmd_commit_cst; exact Hst.
  - apply Hstat. apply cmd_status_cst; exact Hst.
  - apply Hstat. apply cmd_branch_cst; exact Hst.
  - apply Hstat. apply cmd_switch_cst; exact Hst.
  - apply Hstat. apply cmd_reset_cst; exact Hst.
  - apply Hstat. apply cmd_restore_cst; exact Hst.
  - apply Hstat. apply cmd_update_ref_cst; exact Hst.
  - apply Hstat. apply cmd_log_cst; exact Hst.
  - apply Hstat. apply cmd_reflog_cst; exact Hst.
  - apply Hstat. apply cmd_cat_file_cst; exact Hst.
  - apply Hstat. apply cmd_hash_object_cst; exact Hst.
  - apply Hstat. apply cmd_ls_files_cst; exact Hst.
  - apply Hstat. apply cmd_rev_parse_cst; exact Hst.
  - apply Hstat. apply cmd_write_tree_cst; exact Hst.
Qed.

(* ---------- item 2a: [WfCfg] holds throughout every history ---------- *)

(* whatever configuration a file yields is well formed *)
Definition WfCfg (w : world) : Prop :=
  (forall c, cfg_of (w_lcfg w) = Some c -> wf_cfg c) /\
  (forall c, cfg_of (w_gcfg w) = Some c -> wf_cfg c).

(* a configuration write stores a file that is unreadable or well formed *)
Definition cfg_G (w : world) (e : effect) : Prop :=
  match e with ESetLcfg s | ESetGcfg s => good_st s | _ => True end.

Lemma WfCfg_static : forall e w, cfg_static e -> WfCfg w -> cfg_G w e /\ WfCfg (apply_effect e w).
Proof.
  intros e w He [Hl Hg]. split; [destruct e; try contradiction He; exact Logic.I|].
  unfold WfCfg. destruct (cfg_static_frame e w He) as [El Eg]. rewrite El, Eg. split; assumption.
Qed.

Lemma WfCfg_init : forall w, WfCfg w -> cfg_G w EInit /\ WfCfg (apply_effect EInit w).
Proof.
  intros w [Hl Hg]. split; [exact Logic.I|]. unfold WfCfg. autorewrite with wfields.
  split; [exact good_st_empty | exact Hg].
Qed.

Lemma WfCfg_set_l : forall s w, good_st s -> WfCfg w ->
  cfg_G w (ESetLcfg s) /\ WfCfg (apply_effect (ESetLcfg s) w).
Proof. intros s w Hs [Hl Hg]. split; [exact Hs|]. split; [exact Hs | exact Hg]. Qed.

Lemma WfCfg_set_g : forall s w, good_st s -> WfCfg w ->
  cfg_G w (ESetGcfg s) /\ WfCfg (apply_effect (ESetGcfg s) w).
Proof. intros s w Hs [Hl Hg]. split; [exact Hs|]. split; [exact Hl | exact Hs]. Qed.

Lemma cmd_config_wf : forall x g args w,
  hoare WfCfg cfg_G (eq w) (cmd_config x g args) (fun _ _ => True).
Proof.
  intros x g args w. unfold cmd_config. hsteps; try exact Logic.I.
  all: first [ apply WfCfg_set_g; [first [apply good_st_written | apply good_st_empty] | assumption]
             | apply WfCfg_set_l; [apply good_st_written | assumption] ].
Qed.

Theorem run_cmd_emits_WfCfg : forall e c, emits WfCfg cfg_G (run_cmd e c).
Proof.
  intros e c. apply run_cmd_emits_cfg; [exact WfCfg_static | intros _; exact WfCfg_init |].
  intros g args _ x w _ _. apply cmd_config_wf.
Qed.

Lemma WfCfg_edit : forall u w, WfCfg w -> WfCfg (apply_edit u w).
Proof. intros u w H. unfold WfCfg. rewrite w_lcfg_apply_edit, w_gcfg_apply_edit. exact H. Qed.

Theorem WfCfg_step : forall a w, WfCfg w -> WfCfg (step_w a w).
Proof. exact (step_invariant WfCfg cfg_G run_cmd_emits_WfCfg WfCfg_edit). Qed.

Theorem WfCfg_run_from : forall h w, WfCfg w -> WfCfg (run h w).
Proof. exact (run_invariant WfCfg cfg_G run_cmd_emits_WfCfg WfCfg_edit). Qed.

Lemma WfCfg_empty : WfCfg w_empty.
Proof. split; exact good_st_absent. Qed.

Theorem WfCfg_run : forall h, WfCfg (run h w_empty).
Proof. intro h. apply WfCfg_run_from. exact WfCfg_empty. Qed.

(* also in the world a command stops in when a write fails, and after every
   prefix of its writes *)
Theorem WfCfg_fault : forall e c w k r s',
  WfCfg w -> run_cmd e c (mkMS w [] (Some k)) = (r, s') -> WfCfg (ms_w s').
Proof.
  intros e c w k r s' Hi Hrun.
  exact (proj1 (emits_sound_fault WfCfg cfg_G _ _ w k r s' (run_cmd_emits_WfCfg e c) Hi Hrun)).
Qed.

Theorem WfCfg_prefix : forall e c w w' o tr n,
  WfCfg w -> step (ACmd e c) w = (w', o, tr) -> WfCfg (apply_effects (firstn n tr) w).
Proof.
  intros e c w w' o tr n Hi Hstep. cbn [step] in Hstep.
  destruct (run_m (run_cmd e c) w) as [[r w1] tr1] eqn:Erun.
  destruct (emits_sound WfCfg cfg_G _ _ w r w1 tr1 (run_cmd_emits_WfCfg e c) Hi Erun) as (_ & _ & _ & Hpre & _).
  destruct r; injection Hstep as _ _ Htr; subst tr1; apply Hpre.
Qed.

(* ---------- item 2b: both files stay readable when the arguments are ok ---------- *)

Definition CfgGood (w : world) : Prop :=
  exists l g, cfg_of (w_lcfg w) = Some l /\ cfg_of (w_gcfg w) = Some g /\ wf_cfg l /\ wf_cfg g.

Definition good_G (w : world) (e : effect) : Prop :=
  match e with
  | ESetLcfg s | ESetGcfg s => exists c, s = CfgFile (Some c) /\ wf_cfg c
  | _ => True
  end.

Definition ok_config_args (args : list bytes) : Prop :=
  match args with
  | [key; value] =>
      match split_all x2e key with
      | [sec; k] => ok_sec sec /\ ok_key k /\ ok_val value
      | _ => True                                   (* refused: nothing is written *)
      end
  | _ => True
  end.
Definition ok_cmd (c : cmd) : Prop := match c with CConfig _ args => ok_config_args args | _ => True end.
Definition ok_action (a : action) : Prop := match a with ACmd _ c => ok_cmd c | AEdit _ => True end.

Lemma CfgGood_static : forall e w, cfg_static e -> CfgGood w -> good_G w e /\ CfgGood (apply_effect e w).
Proof.
  intros e w He Hi. split; [destruct e; try contradiction He; exact Logic.I|].
  unfold CfgGood. destruct (cfg_static_frame e w He) as [El Eg]. rewrite El, Eg. exact Hi.
Qed.

Lemma CfgGood_init : forall w, CfgGood w -> good_G w EInit /\ CfgGood (apply_effect EInit w).
Proof.
  intros w (l & g & Hl & Hg & Hwl & Hwg). split; [exact Logic.I|].
  unfold CfgGood. autorewrite with wfields.
  exists [], g. split; [reflexivity | split; [exact Hg | split; [exact wf_cfg_nil | exact Hwg]]].
Qed.

Lemma CfgGood_set_l : forall c w, wf_cfg c -> CfgGood w ->
  good_G w (ESetLcfg (CfgFile (Some c))) /\ CfgGood (apply_effect (ESetLcfg (CfgFile (Some c))) w).
Proof.
  intros c w Hc (l & g & Hl & Hg & Hwl & Hwg). split; [exists c; split; [reflexivity | exact Hc]|].
  exists c, g. split; [reflexivity | split; [exact Hg | split; [exact Hc | exact Hwg]]].
Qed.

Lemma CfgGood_set_g : forall c w, wf_cfg c -> CfgGood w ->
  good_G w (ESetGcfg (CfgFile (Some c))) /\ CfgGood (apply_effect (ESetGcfg (CfgFile (Some c))) w).
Proof.
  intros c w Hc (l & g & Hl & Hg & Hwl & Hwg). split; [exists c; split; [reflexivity | exact Hc]|].
  exists l, c. split; [exact Hl | split; [reflexivity | split; [exact Hwl | exact Hc]]].
Qed.

Lemma CfgGood_ctx : forall w x, CfgGood w -> ctx_of w = Some x -> wf_cfg (x_l x) /\ wf_cfg (x_g x).
Proof.
  intros w x (l & g & Hl & Hg & Hwl & Hwg) Hx. destruct (ctx_of_cfgs w x Hx) as [Hxl Hxg].
  rewrite Hl in Hxl. rewrite Hg in Hxg. injection Hxl as Hxl. injection Hxg as Hxg.
  subst l g. split; assumption.
Qed.

Lemma cmd_config_good : forall x g args w,
  ctx_of w = Some x -> ok_config_args args ->
  hoare CfgGood good_G (eq w) (cmd_config x g args) (fun _ _ => True).
Proof.
  intros x g args w Hx Hok. apply at_Inv. intro Hi0.
  destruct (CfgGood_ctx w x Hi0 Hx) as [Hwl Hwg].
  unfold cmd_config.
  destruct args as [|key [|value [|a3 ar]]]; try apply hoare_fail.
  cbn [ok_config_args] in Hok.
  destruct (split_all x2e key) as [|sec [|k [|s3 sr]]]; try apply hoare_fail.
  destruct Hok as (Hs & Hk & Hv).
  pose proof (cfg_written_wf _ (cfg_add_wf (x_l x) sec k value Hwl Hs Hk Hv)) as El.
  pose proof (cfg_written_wf _ (cfg_add_wf (x_g x) sec k value Hwg Hs Hk Hv)) as Eg.
  rewrite El, Eg.
  hsteps; try exact Logic.I.
  all: first [ apply CfgGood_set_g; [first [apply cfg_add_wf; assumption | exact wf_cfg_nil] | assumption]
             | apply CfgGood_set_l; [apply cfg_add_wf; assumption | assumption] ].
Qed.

Theorem run_cmd_emits_CfgGood : forall e c, ok_cmd c -> emits CfgGood good_G (run_cmd e c).
Proof.
  intros e c Hok. apply run_cmd_emits_cfg; [exact CfgGood_static | intros _; exact CfgGood_init |].
  intros g args Hc x w _ Hx. subst c. apply cmd_config_good; [exact Hx | exact Hok].
Qed.

Theorem CfgGood_step : forall a w, ok_action a -> CfgGood w -> CfgGood (step_w a w).
Proof.
  intros [e c|u] w Hok Hi; unfold step_w; cbn [step].
  - destruct (run_m (run_cmd e c) w) as [[r w'] tr] eqn:Erun.
    destruct (emits_sound CfgGood good_G _ _ w r w' tr (run_cmd_emits_CfgGood e c Hok) Hi Erun) as (Hi' & _).
    destruct r; exact Hi'.
  - cbn [fst]. unfold CfgGood. rewrite w_lcfg_apply_edit, w_gcfg_apply_edit. exact Hi.
Qed.

Theorem CfgGood_run_from : forall h w, Forall ok_action h -> CfgGood w -> CfgGood (run h w).
Proof.
  intro h. induction h as [|a h IH]; intros w Hall Hi.
  - exact Hi.
  - rewrite run_cons. apply Forall_cons_iff in Hall. destruct Hall as [Ha Hall].
    apply IH; [exact Hall|]. apply CfgGood_step; assumption.
Qed.

Lemma CfgGood_empty : CfgGood w_empty.
Proof. exists [], []. split; [reflexivity | split; [reflexivity | split; exact wf_cfg_nil]]. Qed.

Theorem CfgGood_run : forall h, Forall ok_action h -> CfgGood (run h w_empty).
Proof. intros h Hall. apply CfgGood_run_from; [exact Hall | exact CfgGood_empty]. Qed.

(* ---------- only `init` and `config` write a configuration file ---------- *)
Theorem other_commands_keep_configs : forall e c w w' o tr,
  c <> CInit -> (forall g args, c <> CConfig g args) ->
  step (ACmd e c) w = (w', o, tr) ->
  w_lcfg w' = w_lcfg w /\ w_gcfg w' = w_gcfg w /\ Forall cfg_static tr.
Proof.
  intros e c w w' o tr Hni Hnc Hstep.
  pose (I0 := fun w0 : world => w_lcfg w0 = w_lcfg w /\ w_gcfg w0 = w_gcfg w).
  pose (G0 := fun (_ : world) (e0 : effect) => cfg_static e0).
  assert (Hem : emits I0 G0 (run_cmd e c)).
  { apply run_cmd_emits_cfg.
    - intros e0 w0 He0 [Hl Hg]. split; [exact He0|]. unfold I0.
      destruct (cfg_static_frame e0 w0 He0) as [El Eg]. rewrite El, Eg. split; assumption.
    - intro Hc. contradiction (Hni Hc).
    - intros g args Hc. contradiction (Hnc g args Hc). }
  cbn [step] in Hstep. destruct (run_m (run_cmd e c) w) as [[r w1] tr1] eqn:Erun.
  assert (Hi : I0 w) by (split; reflexivity).
  destruct (emits_sound I0 G0 _ _ w r w1 tr1 Hem Hi Erun) as ([Hl Hg] & _ & Hsteps & _).
  assert (Hall : Forall cfg_static tr1).
  { apply (steps_ok_forall I0 G0 cfg_static (fun _ e0 He0 => He0) tr1 w Hsteps). }
  destruct r; injection Hstep as Hw _ Htr; subst w1 tr1; auto.
Qed.

Theorem init_spec : forall e w,
  w_inited w = false ->
  step (ACmd e CInit) w = (apply_effect EInit w, OOk [], [EInit])
  /\ w_lcfg (apply_effect EInit w) = CfgFile (Some []) /\ w_gcfg (apply_effect EInit w) = w_gcfg w.
Proof.
  intros e w Hi. split; [|split; reflexivity].
  rewrite step_cmd_eq, run_cmd_eq. unfold cmd_init. ev. rewrite Hi. cbn [negb]. ev. reflexivity.
Qed.

(* ---------- item 2c: NOT-ok arguments ---------- *)

(* `config` REFUSES (exit 1, nothing written, no file created) a call whose
   section name is empty or whose "<section>.<key>" or value holds a line feed:
   before this check such a call wrote a file that no command could load
   afterwards.  In every world, loaded or not. *)
Theorem hostile_config_refused : forall e g key value w,
  (forall sec k, split_all x2e key = [sec; k] -> config_args_ok sec k key value = false) ->
  step (ACmd e (CConfig g [key; value])) w = (w, OErr, []).
Proof.
  intros e g key value w Hbad.
  destruct (w_inited w) eqn:Ei; [|apply step_not_loaded; [discriminate | left; exact Ei]].
  destruct (ctx_of w) as [x|] eqn:Ex; [|apply step_not_loaded; [discriminate | right; exact Ex]].
  rewrite (step_config_eq e g _ w x Ei Ex). unfold config_trace.
  destruct (split_all x2e key) as [|sec [|k [|s3 sr]]] eqn:Esp; try reflexivity.
  rewrite (Hbad sec k eq_refl). reflexivity.
Qed.

Corollary config_newline_in_value_refused : forall e g key value w,
  In c_nl value -> step (ACmd e (CConfig g [key; value])) w = (w, OErr, []).
Proof.
  intros e g key value w Hin. apply hostile_config_refused. intros sec k Hsp.
  destruct (config_args_ok sec k key value) eqn:E; [|reflexivity].
  apply (config_args_ok_iff key value sec k Hsp) in E. destruct E as (_ & _ & _ & Hv). contradiction.
Qed.

Corollary config_newline_in_key_refused : forall e g key value w,
  In c_nl key -> step (ACmd e (CConfig g [key; value])) w = (w, OErr, []).
Proof.
  intros e g key value w Hin. apply hostile_config_refused. intros sec k Hsp.
  destruct (config_args_ok sec k key value) eqn:E; [|reflexivity].
  apply (config_args_ok_iff key value sec k Hsp) in E. destruct E as (_ & Hs & [[Hk _] _] & _).
  rewrite (cc_split2_join x2e key sec k Hsp) in Hin. apply in_app_or in Hin.
  destruct Hin as [Hin|[Hin|Hin]]; [contradiction | discriminate Hin | contradiction].
Qed.

Corollary config_empty_section_refused : forall e g k value w,
  step (ACmd e (CConfig g [x2e :: k; value])) w = (w, OErr, []).
Proof.
  intros e g k value w. apply hostile_config_refused. intros sec k' Hsp.
  cbn [split_all] in Hsp. change (beqb x2e x2e) with true in Hsp. cbv iota in Hsp.
  injection Hsp as Hsec _. subst sec. reflexivity.
Qed.

(* `config` REFUSES a key (the part after the dot) that holds an '=' or a TAB
   or has white space around it: the loader would read such a key back as
   ANOTHER key (tabs removed, split at the first '=', trimmed), whose value the
   call would silently overwrite *)
Corollary config_ambiguous_key_refused : forall e g key value sec k w,
  split_all x2e key = [sec; k] ->
  In x3d k \/ In c_tab k \/ trim_space k <> k ->
  step (ACmd e (CConfig g [key; value])) w = (w, OErr, []).
Proof.
  intros e g key value sec k w Hsp Hbad. apply hostile_config_refused. intros sec' k' Hsp'.
  rewrite Hsp in Hsp'. injection Hsp' as <- <-.
  destruct (config_args_ok sec k key value) eqn:E; [|reflexivity].
  apply (config_args_ok_iff key value sec k Hsp) in E.
  destruct E as (_ & _ & [(_ & Ht & Htr) He] & _).
  destruct Hbad as [H|[H|H]]; contradiction.
Qed.

(* conversely, an accepted call passed the guard *)
Lemma config_trace_some_guard : forall w x g args tr,
  config_trace w x g args = Some tr ->
  exists key value sec k, args = [key; value] /\ split_all x2e key = [sec; k] /\
    sec <> [] /\ ~ In c_nl sec /\ ok_key k /\ ~ In c_nl value.
Proof.
  intros w x g args tr Htr. unfold config_trace in Htr.
  destruct args as [|key [|value [|a3 ar]]]; try discriminate Htr.
  destruct (split_all x2e key) as [|sec [|k [|s3 sr]]] eqn:Esp; try discriminate Htr.
  destruct (config_args_ok sec k key value) eqn:E; [|discriminate Htr].
  exists key, value, sec, k. split; [reflexivity|]. split; [exact Esp|].
  apply (config_args_ok_iff key value sec k Esp). exact E.
Qed.

Local Open Scope string_scope.

Definition env0 : env := mkEnv 1700000000 0.

Definition w_inited0 : world := Eval vm_compute in run [ACmd env0 CInit] w_empty.
Lemma w_inited0_run : run [ACmd env0 CInit] w_empty = w_inited0.
Proof. vm_compute. reflexivity. Qed.

(* by computation: an empty section name, a line feed in the value, a line
   feed in the key (local and global): exit 1, the world unchanged, nothing
   written; an ordinary value with a blank is still accepted *)
Example ex_hostile_config_refused :
  step (ACmd env0 (CConfig false [str ".k"; str "v"])) w_inited0 = (w_inited0, OErr, []) /\
  step (ACmd env0 (CConfig false [str "user.name"; [x61; x0a; x62]])) w_inited0 = (w_inited0, OErr, []) /\
  step (ACmd env0 (CConfig false [(str "us" ++ [x0a] ++ str "er.name")%list; str "x"])) w_inited0
    = (w_inited0, OErr, []) /\
  step (ACmd env0 (CConfig true [str "user.name"; [x61; x0a; x62]])) w_inited0 = (w_inited0, OErr, []) /\
  w_gcfg w_inited0 = CfgAbsent /\
  step (ACmd env0 (CConfig false [str "user.name"; str "ok name"])) w_inited0
    = (set_lcfg w_inited0 (CfgFile (Some [(str "user", [(str "name", str "ok name")])])), OOk [],
       [ESetLcfg (CfgFile (Some [(str "user", [(str "name", str "ok name")])]))]).
Proof. vm_compute. repeat split; reflexivity. Qed.

(* the histories of the task statement, as runs from the empty disk *)
Example ex_hostile_histories_unchanged :
  run [ACmd env0 CInit; ACmd env0 (CConfig false [str ".k"; str "v"])] w_empty = w_inited0 /\
  run [ACmd env0 CInit; ACmd env0 (CConfig false [str "user.name"; [x61; x0a; x62]])] w_empty = w_inited0 /\
  run [ACmd env0 CInit; ACmd env0 (CConfig false [(str "us" ++ [x0a] ++ str "er.name")%list; str "x"])] w_empty
    = w_inited0.
Proof. vm_compute. repeat split; reflexivity. Qed.

(* the refusals in one statement: in general, and the three histories
   `init; config .k v`, `init; config user.name "a\nb"`,
   `init; config "us\ner.name" x` by computation (exit 1, no effect, the world
   unchanged), while `config user.name "ok name"` is accepted as before *)
Theorem hostile_config_refused_summary :
  (forall e g key value w, In c_nl value -> step (ACmd e (CConfig g [key; value])) w = (w, OErr, [])) /\
  (forall e g key value w, In c_nl key -> step (ACmd e (CConfig g [key; value])) w = (w, OErr, [])) /\
  (forall e g k value w, step (ACmd e (CConfig g [x2e :: k; value])) w = (w, OErr, [])) /\
  (forall c, In c [CConfig false [str ".k"; str "v"];
                   CConfig false [str "user.name"; [x61; x0a; x62]];
                   CConfig false [(str "us" ++ [x0a] ++ str "er.name")%list; str "x"]] ->
     step (ACmd env0 c) (run [ACmd env0 CInit] w_empty) = (run [ACmd env0 CInit] w_empty, OErr, []) /\
     run [ACmd env0 CInit; ACmd env0 c] w_empty = run [ACmd env0 CInit] w_empty) /\
  w_lcfg (run [ACmd env0 CInit; ACmd env0 (CConfig false [str "user.name"; str "ok name"])] w_empty)
    = CfgFile (Some [(str "user", [(str "name", str "ok name")])]).
Proof.
  split; [exact config_newline_in_value_refused|].
  split; [exact config_newline_in_key_refused|].
  split; [exact config_empty_section_refused|].
  split; [|vm_compute; reflexivity].
  intros c [<-|[<-|[<-|[]]]]; split; vm_compute; reflexivity.
Qed.

(* a configuration file the loader rejects can no longer be produced by
   `config` (CtxFacts.reachable_cfgs_load); it can still be produced BY HAND
   (an editor on .goit/config).  [w_broken]: the local file after `init`,
   replaced by the text "[user]\n\tname = a\nb\n" that `config user.name "a\nb"`
   wrote before the repair *)
Definition w_broken : world := Eval vm_compute in set_lcfg w_inited0 (CfgFile None).

Example ex_broken_text_rejected :
  cfg_load (str "[user]" ++ [x0a; x09] ++ str "name = a" ++ [x0a] ++ str "b" ++ [x0a])%list = None.
Proof. vm_compute. reflexivity. Qed.

Example ex_hand_broken_config :
  w_lcfg w_broken = CfgFile None /\ w_inited w_broken = true
  /\ step (ACmd env0 CStatus) w_broken = (w_broken, OErr, [])
  /\ step (ACmd env0 (CConfig false [str "user.name"; str "a"])) w_broken = (w_broken, OErr, []).
Proof. vm_compute. repeat split; reflexivity. Qed.

(* before the repair a value "N\nemail = evil@x.yy" silently set ANOTHER key of
   the same section; now the call is refused and user.email keeps its value *)
Example ex_newline_cannot_inject_key :
  let h := [ACmd env0 CInit; ACmd env0 (CConfig false [str "user.email"; str "me@x.yy"])] in
  let bad := ACmd env0 (CConfig false [str "user.name"; (str "N" ++ [x0a] ++ str "email = evil@x.yy")%list]) in
  step bad (run h w_empty) = (run h w_empty, OErr, []) /\
  w_lcfg (run (h ++ [bad]) w_empty) = CfgFile (Some [(str "user", [(str "email", str "me@x.yy")])]).
Proof. vm_compute. split; reflexivity. Qed.

(* a TAB inside the VALUE, white space around it: accepted, but another value
   is what the next process sees; '=' in the KEY (read back as another key
   before the second repair): refused, nothing written *)
Example ex_not_ok_but_loads :
  w_lcfg (run [ACmd env0 CInit;
               ACmd env0 (CConfig false [str "a.k"; [x20; x78; x09; x79; x20]]);
               ACmd env0 (CConfig false [str "a.p=q"; str "v"])] w_empty)
  = CfgFile (Some [(str "a", [(str "k", str "xy")])]).
Proof. vm_compute. reflexivity. Qed.

Local Close Scope string_scope.

(* a configuration file the loader rejects *)
Definition cfg_broken (w : world) : Prop :=
  cfg_of (w_lcfg w) = None \/ cfg_of (w_gcfg w) = None.

Lemma broken_ctx_none : forall w, cfg_broken w -> ctx_of w = None.
Proof.
  intros w [Hl|Hg]; unfold ctx_of.
  - rewrite Hl. destruct (cfg_of (w_gcfg w)); reflexivity.
  - rewrite Hg. reflexivity.
Qed.

Lemma broken_load_fails : forall w t fk, cfg_broken w -> load_ctx (mkMS w t fk) = (Err, mkMS w t fk).
Proof. intros w t fk Hb. rewrite load_ctx_eq. cbn [ms_w]. rewrite (broken_ctx_none w Hb). reflexivity. Qed.

(* every command is refused, having written nothing *)
Theorem broken_config_refuses : forall w e c,
  w_inited w = true -> cfg_broken w -> step (ACmd e c) w = (w, OErr, []).
Proof.
  intros w e c Hi Hb. destruct c; try (apply step_not_loaded; [discriminate | right; apply broken_ctx_none; exact Hb]).
  apply init_twice_refused. exact Hi.
Qed.

Lemma broken_step : forall a w,
  w_inited w = true -> cfg_broken w ->
  w_inited (step_w a w) = true /\ cfg_broken (step_w a w).
Proof.
  intros [e c|u] w Hi Hb; unfold step_w.
  - rewrite (broken_config_refuses w e c Hi Hb). cbn [fst]. split; assumption.
  - cbn [step fst]. unfold cfg_broken.
    rewrite w_inited_apply_edit, w_lcfg_apply_edit, w_gcfg_apply_edit. split; assumption.
Qed.

Lemma broken_run : forall h w,
  w_inited w = true -> cfg_broken w ->
  w_inited (run h w) = true /\ cfg_broken (run h w).
Proof.
  intro h. induction h as [|a h IH]; intros w Hi Hb.
  - split; assumption.
  - rewrite run_cons. destruct (broken_step a w Hi Hb) as [Hi' Hb']. apply IH; assumption.
Qed.

(* ... and so is every LATER command, whatever the user does in between: the
   repository stays unusable until the file is repaired by hand *)
Theorem broken_config_refuses_everything : forall w h e c,
  w_inited w = true -> cfg_broken w ->
  step (ACmd e c) (run h w) = (run h w, OErr, []).
Proof.
  intros w h e c Hi Hb. destruct (broken_run h w Hi Hb) as [Hi' Hb'].
  apply broken_config_refuses; assumption.
Qed.

(* the repository (everything but the work tree) is frozen *)
Theorem broken_config_frozen : forall w h,
  w_inited w = true -> cfg_broken w ->
  w_refs (run h w) = w_refs w /\ w_head (run h w) = w_head w /\ w_index (run h w) = w_index w /\
  w_objs (run h w) = w_objs w /\ w_hlog (run h w) = w_hlog w /\ w_blogs (run h w) = w_blogs w /\
  w_lcfg (run h w) = w_lcfg w /\ w_gcfg (run h w) = w_gcfg w.
Proof.
  intros w h. revert w. induction h as [|a h IH]; intros w Hi Hb.
  - repeat split.
  - rewrite run_cons. destruct (broken_step a w Hi Hb) as [Hi' Hb'].
    destruct (IH _ Hi' Hb') as (H1 & H2 & H3 & H4 & H5 & H6 & H7 & H8).
    rewrite H1, H2, H3, H4, H5, H6, H7, H8. clear H1 H2 H3 H4 H5 H6 H7 H8.
    destruct a as [e c|u]; unfold step_w.
    + rewrite (broken_config_refuses w e c Hi Hb). cbn [fst]. repeat split.
    + cbn [step fst]. autorewrite with wfields. repeat split.
Qed.

Example ex_broken_forever : forall h e c,
  step (ACmd e c) (run h w_broken) = (run h w_broken, OErr, []).
Proof.
  intros h e c. apply broken_config_refuses_everything.
  - vm_compute. reflexivity.
  - left. vm_compute. reflexivity.
Qed.

(* under a fault setting too: the command answers Err and performs no effect *)
Theorem broken_config_refuses_fault : forall w e c t fk,
  w_inited w = true -> cfg_broken w -> run_cmd e c (mkMS w t fk) = (Err, mkMS w t fk).
Proof.
  intros w e c t fk Hi Hb. rewrite run_cmd_eq. cbn [ms_w]. rewrite Hi, (broken_ctx_none w Hb).
  destruct c; try reflexivity.
  unfold cmd_init. rewrite ev_bind_getw, ev_bind_guard. cbn [ms_w]. rewrite Hi. reflexivity.
Qed.

(* ================================================================== *)
(** * 4. Effective identity: local over global *)

Definition k_name : bytes := str "name"%string.
Definition k_email : bytes := str "email"%string.

(* what [load_ctx] will answer is determined by the two files *)
Theorem effective_local : forall w x l key v,
  ctx_of w = Some x -> cfg_of (w_lcfg w) = Some l ->
  cfg_lookup l s_user key = Some v ->
  ident_get (x_l x) (x_g x) key = Some v.
Proof.
  intros w x l key v Hx Hl Hv. destruct (ctx_of_cfgs w x Hx) as [Hxl _].
  rewrite Hl in Hxl. injection Hxl as Hxl. subst l.
  apply ident_get_local_first. exact Hv.
Qed.

Theorem effective_global : forall w x l g key,
  ctx_of w = Some x -> cfg_of (w_lcfg w) = Some l -> cfg_of (w_gcfg w) = Some g ->
  cfg_lookup l s_user key = None ->
  ident_get (x_l x) (x_g x) key = cfg_lookup g s_user key.
Proof.
  intros w x l g key Hx Hl Hg Hv. destruct (ctx_of_cfgs w x Hx) as [Hxl Hxg].
  rewrite Hl in Hxl. injection Hxl as Hxl. rewrite Hg in Hxg. injection Hxg as Hxg. subst l g.
  apply ident_get_global_fallback. exact Hv.
Qed.

Corollary effective_name_local : forall w x l N,
  ctx_of w = Some x -> cfg_of (w_lcfg w) = Some l ->
  cfg_lookup l s_user k_name = Some N -> user_name (x_l x) (x_g x) = N.
Proof.
  intros w x l N Hx Hl Hv. unfold user_name. fold k_name.
  rewrite (effective_local w x l k_name N Hx Hl Hv). reflexivity.
Qed.

Corollary effective_name_global : forall w x l g N,
  ctx_of w = Some x -> cfg_of (w_lcfg w) = Some l -> cfg_of (w_gcfg w) = Some g ->
  cfg_lookup l s_user k_name = None -> cfg_lookup g s_user k_name = Some N ->
  user_name (x_l x) (x_g x) = N.
Proof.
  intros w x l g N Hx Hl Hg Hn Hv. unfold user_name. fold k_name.
  rewrite (effective_global w x l g k_name Hx Hl Hg Hn), Hv. reflexivity.
Qed.

Corollary effective_email_local : forall w x l E,
  ctx_of w = Some x -> cfg_of (w_lcfg w) = Some l ->
  cfg_lookup l s_user k_email = Some E -> user_email (x_l x) (x_g x) = E.
Proof.
  intros w x l E Hx Hl Hv. unfold user_email. fold k_email.
  rewrite (effective_local w x l k_email E Hx Hl Hv). reflexivity.
Qed.

Corollary effective_email_global : forall w x l g E,
  ctx_of w = Some x -> cfg_of (w_lcfg w) = Some l -> cfg_of (w_gcfg w) = Some g ->
  cfg_lookup l s_user k_email = None -> cfg_lookup g s_user k_email = Some E ->
  user_email (x_l x) (x_g x) = E.
Proof.
  intros w x l g E Hx Hl Hg Hn Hv. unfold user_email. fold k_email.
  rewrite (effective_global w x l g k_email Hx Hl Hg Hn), Hv. reflexivity.
Qed.

(* the identity is complete iff each of the two keys is found in one of the files *)
Theorem user_set_ctx : forall w x l g,
  ctx_of w = Some x -> cfg_of (w_lcfg w) = Some l -> cfg_of (w_gcfg w) = Some g ->
  (user_set (x_l x) (x_g x) = true <->
   (cfg_lookup l s_user k_name <> None \/ cfg_lookup g s_user k_name <> None) /\
   (cfg_lookup l s_user k_email <> None \/ cfg_lookup g s_user k_email <> None)).
Proof.
  intros w x l g Hx Hl Hg. destruct (ctx_of_cfgs w x Hx) as [Hxl Hxg].
  rewrite Hl in Hxl. injection Hxl as Hxl. rewrite Hg in Hxg. injection Hxg as Hxg. subst l g.
  rewrite user_set_iff. fold k_name k_email.
  assert (Hkey : forall key, (exists v, ident_get (x_l x) (x_g x) key = Some v) <->
                  (cfg_lookup (x_l x) s_user key <> None \/ cfg_lookup (x_g x) s_user key <> None)).
  { intro key. destruct (cfg_lookup (x_l x) s_user key) as [v|] eqn:El.
    - rewrite (ident_get_local_first _ (x_g x) _ _ El). split.
      + intros _. left. discriminate.
      + intros _. exists v. reflexivity.
    - rewrite (ident_get_global_fallback _ (x_g x) _ El). split.
      + intros [v Hv]. right. rewrite Hv. discriminate.
      + intros [Hf|Hg']; [contradiction Hf; reflexivity|].
        destruct (cfg_lookup (x_g x) s_user key) as [v|]; [exists v; reflexivity | contradiction Hg'; reflexivity]. }
  rewrite (Hkey k_name), (Hkey k_email). reflexivity.
Qed.

(* `config --global ...`, whatever its arguments, leaves the local file alone;
   `config ...` leaves the global file alone *)
Lemma config_trace_global_frame : forall w x args tr,
  config_trace w x true args = Some tr -> w_lcfg (apply_effects tr w) = w_lcfg w.
Proof.
  intros w x args tr Htr. unfold config_trace in Htr.
  destruct args as [|key [|value [|a3 ar]]]; try discriminate Htr.
  destruct (split_all x2e key) as [|sec [|k [|s3 sr]]]; try discriminate Htr.
  destruct (config_args_ok sec k key value); [|discriminate Htr].
  injection Htr as Htr. subst tr. destruct (w_gcfg w); reflexivity.
Qed.

Lemma config_trace_local_frame : forall w x args tr,
  config_trace w x false args = Some tr -> w_gcfg (apply_effects tr w) = w_gcfg w.
Proof.
  intros w x args tr Htr. unfold config_trace in Htr.
  destruct args as [|key [|value [|a3 ar]]]; try discriminate Htr.
  destruct (split_all x2e key) as [|sec [|k [|s3 sr]]]; try discriminate Htr.
  destruct (config_args_ok sec k key value); [|discriminate Htr].
  injection Htr as Htr. subst tr. reflexivity.
Qed.

Theorem config_global_keeps_local : forall e args w,
  w_lcfg (step_w (ACmd e (CConfig true args)) w) = w_lcfg w.
Proof.
  intros e args w. unfold step_w.
  destruct (w_inited w) eqn:Ei; [destruct (ctx_of w) as [x|] eqn:Ex|].
  - rewrite (step_config_eq e true args w x Ei Ex).
    destruct (config_trace w x true args) as [tr|] eqn:Etr; cbn [fst]; [|reflexivity].
    apply (config_trace_global_frame w x args tr Etr).
  - rewrite step_not_loaded; [reflexivity | discriminate | right; exact Ex].
  - rewrite step_not_loaded; [reflexivity | discriminate | left; exact Ei].
Qed.

Theorem config_local_keeps_global : forall e args w,
  w_gcfg (step_w (ACmd e (CConfig false args)) w) = w_gcfg w.
Proof.
  intros e args w. unfold step_w.
  destruct (w_inited w) eqn:Ei; [destruct (ctx_of w) as [x|] eqn:Ex|].
  - rewrite (step_config_eq e false args w x Ei Ex).
    destruct (config_trace w x false args) as [tr|] eqn:Etr; cbn [fst]; [|reflexivity].
    apply (config_trace_local_frame w x args tr Etr).
  - rewrite step_not_loaded; [reflexivity | discriminate | right; exact Ex].
  - rewrite step_not_loaded; [reflexivity | discriminate | left; exact Ei].
Qed.

(* item 3, at command level: after `config user.name N`, then ANY
   `config --global ...`, the name a command works with is N *)
Theorem local_name_overrides_global : forall e1 e2 w l N gargs x2,
  w_inited w = true -> rest_loads w -> cfg_of (w_gcfg w) <> None ->
  w_lcfg w = CfgFile (Some l) -> wf_cfg l -> ok_val N ->
  let w1 := step_w (ACmd e1 (CConfig false [str "user.name"%string; N])) w in
  let w2 := step_w (ACmd e2 (CConfig true gargs)) w1 in
  ctx_of w2 = Some x2 -> user_name (x_l x2) (x_g x2) = N.
Proof.
  intros e1 e2 w l N gargs x2 Hi Hrest Hg Hl Hwf HN w1 w2 Hx2.
  assert (Hs : ok_sec s_user). { split; [discriminate | cbn; intuition discriminate]. }
  assert (Hk : ok_key k_name).
  { split; [split; [cbn; intuition discriminate | split; [cbn; intuition discriminate | vm_compute; reflexivity]]
           | cbn; intuition discriminate]. }
  destruct (config_local_spec e1 w l (str "user.name"%string) N s_user k_name Hi Hrest Hg Hl Hwf
              eq_refl Hs Hk HN) as (Hstep & _ & (_ & Hget & _) & _).
  assert (Hw1 : w_lcfg w1 = CfgFile (Some (cfg_add l s_user k_name N))).
  { unfold w1, step_w. rewrite Hstep. reflexivity. }
  assert (Hw2 : w_lcfg w2 = CfgFile (Some (cfg_add l s_user k_name N))).
  { unfold w2. rewrite config_global_keeps_local. exact Hw1. }
  apply (effective_name_local w2 x2 (cfg_add l s_user k_name N) N Hx2); [rewrite Hw2; reflexivity | exact Hget].
Qed.

(* with no local name, the global one is used *)
Theorem global_name_used : forall e w l g N x1,
  w_inited w = true -> rest_loads w ->
  cfg_of (w_lcfg w) = Some l -> cfg_lookup l s_user k_name = None ->
  w_gcfg w = CfgFile (Some g) -> wf_cfg g -> ok_val N ->
  let w1 := step_w (ACmd e (CConfig true [str "user.name"%string; N])) w in
  ctx_of w1 = Some x1 -> user_name (x_l x1) (x_g x1) = N.
Proof.
  intros e w l g N x1 Hi Hrest Hl Hnone Hg Hwf HN w1 Hx1.
  assert (Hs : ok_sec s_user). { split; [discriminate | cbn; intuition discriminate]. }
  assert (Hk : ok_key k_name).
  { split; [split; [cbn; intuition discriminate | split; [cbn; intuition discriminate | vm_compute; reflexivity]]
           | cbn; intuition discriminate]. }
  assert (Hl' : cfg_of (w_lcfg w) <> None) by (rewrite Hl; discriminate).
  destruct (config_global_present_spec e w g (str "user.name"%string) N s_user k_name Hi Hrest Hl' Hg Hwf
              eq_refl Hs Hk HN) as (Hstep & _ & (_ & Hget & _) & _).
  assert (Hg1 : w_gcfg w1 = CfgFile (Some (cfg_add g s_user k_name N))).
  { unfold w1, step_w. rewrite Hstep. reflexivity. }
  assert (Hl1 : w_lcfg w1 = w_lcfg w). { unfold w1. apply config_global_keeps_local. }
  apply (effective_name_global w1 x1 l (cfg_add g s_user k_name N) N Hx1).
  - rewrite Hl1. exact Hl.
  - rewrite Hg1. reflexivity.
  - exact Hnone.
  - exact Hget.
Qed.

(* ================================================================== *)
(** * 5. The identity gate of `commit`, and the identity it records *)

(* restated from TotalFacts ([commit_no_identity_refused]) *)
Theorem commit_without_identity_refused : forall e w x msg,
  w_inited w = true -> ctx_of w = Some x -> user_set (x_l x) (x_g x) = false ->
  step (ACmd e (CCommit msg)) w = (w, OErr, []).
Proof.
  intros e w x msg Hi Hx Hu. apply (commit_no_identity_refused e w x msg Hi); [|exact Hu].
  apply loaded_ctx_of. exact Hx.
Qed.

(* in terms of the two files: a missing name (or email) in BOTH files *)
Corollary commit_without_name_refused : forall e w x l g msg,
  w_inited w = true -> ctx_of w = Some x ->
  cfg_of (w_lcfg w) = Some l -> cfg_of (w_gcfg w) = Some g ->
  (cfg_lookup l s_user k_name = None /\ cfg_lookup g s_user k_name = None) \/
  (cfg_lookup l s_user k_email = None /\ cfg_lookup g s_user k_email = None) ->
  step (ACmd e (CCommit msg)) w = (w, OErr, []).
Proof.
  intros e w x l g msg Hi Hx Hl Hg Hmiss. apply (commit_without_identity_refused e w x msg Hi Hx).
  destruct (user_set (x_l x) (x_g x)) eqn:Eu; [|reflexivity]. exfalso.
  apply (user_set_ctx w x l g Hx Hl Hg) in Eu. destruct Eu as [[Hn|Hn] [He|He]];
    destruct Hmiss as [[M1 M2]|[M1 M2]]; try (apply Hn; assumption); try (apply He; assumption).
Qed.

(* ---------- a successful commit ---------- *)
Definition tree_put (d : bytes) : effect := EPutObj (obj_id KTree d) (payload KTree d).

Lemma put_trees_eq : forall l w t,
  iterM (fun d => put_obj KTree d ;;; ret tt) l (mkMS w t None)
  = (Ok tt, mkMS (apply_effects (map tree_put l) w) (t ++ map tree_put l) None).
Proof.
  intro l. induction l as [|d r IH]; intros w t.
  - cbn [iterM map]. rewrite app_nil_r. reflexivity.
  - cbn [iterM map]. unfold put_obj at 1. ev. rewrite IH.
    rewrite apply_effects_cons, <- app_assoc. reflexivity.
Qed.

Lemma ev_bind_put_trees : forall B l (f : unit -> M B) w t,
  bind (iterM (fun d => put_obj KTree d ;;; ret tt) l) f (mkMS w t None)
  = f tt (mkMS (apply_effects (map tree_put l) w) (t ++ map tree_put l) None).
Proof. intros B l f w t. unfold bind at 1. rewrite put_trees_eq. reflexivity. Qed.

Definition commit_parent (w : world) : option bytes :=
  match am_get (w_refs w) (w_head w) with Some id => Some (hex id) | None => None end.
(* the author/committer line: the effective identity, the instant, the zone *)
Definition commit_sig (e : env) (x : ctx) : bytes :=
  sign_string (user_name (x_l x) (x_g x)) (user_email (x_l x) (x_g x)) (e_time e) (e_off e).
Definition commit_bytes (e : env) (x : ctx) (msg : bytes) (w : world) (root : bytes) : bytes :=
  commit_text (obj_id KTree root) (commit_parent w) (commit_sig e x) (commit_sig e x) msg.

Definition commit_trace (e : env) (x : ctx) (msg : bytes) (w : world) (root : bytes) (subs : list bytes)
                        (from : option bytes) : list effect :=
  let data := commit_bytes e x msg w root in
  let cid := obj_id KCommit data in
  let line := log_rec e x from (Some cid) RCommit (first_line msg) in
  map tree_put (subs ++ [root])
  ++ [EPutObj cid (payload KCommit data); ESetRef (w_head w) cid;
      EAppendHlog line; EAppendBlog (w_head w) line; ESetHead (w_head w)].

Lemma pair_snd_eq : forall (A B : Type) (a a' : A) (b b' : B), (a, b) = (a', b') -> b = b'.
Proof. intros A B a a' b b' H. injection H as _ H. exact H. Qed.

Lemma do_commit_ok : forall e x msg w t s',
  do_commit e x msg (mkMS w t None) = (Ok tt, s') ->
  exists root subs from,
    write_tree_top (idx_of w) = Some (root, subs) /\
    parse_commit (commit_bytes e x msg w root) <> None /\
    s' = mkMS (apply_effects (commit_trace e x msg w root subs from) w)
              (t ++ commit_trace e x msg w root subs from) None.
Proof.
  intros e x msg w t s'. unfold do_commit. rewrite ev_bind_getw.
  cbn [ms_w]. rewrite ev_bind_of_opt.
  destruct (write_tree_top (idx_of w)) as [[root subs]|] eqn:Ewt; [|intro Hrun; discriminate Hrun].
  cbn [fst snd]. rewrite ev_bind_put_trees. cbv beta zeta.
  fold (commit_parent w). fold (commit_sig e x). fold (commit_bytes e x msg w root).
  rewrite ev_bind_of_opt.
  destruct (parse_commit (commit_bytes e x msg w root)) as [c0|] eqn:Ep; [|intro Hrun; discriminate Hrun].
  unfold put_obj. ev.
  assert (Hfin : forall from,
    mkMS (apply_effects (commit_trace e x msg w root subs from) w)
         (t ++ commit_trace e x msg w root subs from) None
    = mkMS (apply_effect (ESetHead (w_head w))
             (apply_effect (EAppendBlog (w_head w)
                 (log_rec e x from (Some (obj_id KCommit (commit_bytes e x msg w root))) RCommit (first_line msg)))
               (apply_effect (EAppendHlog
                   (log_rec e x from (Some (obj_id KCommit (commit_bytes e x msg w root))) RCommit (first_line msg)))
                 (apply_effect (ESetRef (w_head w) (obj_id KCommit (commit_bytes e x msg w root)))
                   (apply_effect (EPutObj (obj_id KCommit (commit_bytes e x msg w root))
                                          (payload KCommit (commit_bytes e x msg w root)))
                     (apply_effects (map tree_put (subs ++ [root])) w))))))
           ((((((t ++ map tree_put (subs ++ [root]))
                 ++ [EPutObj (obj_id KCommit (commit_bytes e x msg w root)) (payload KCommit (commit_bytes e x msg w root))])
                ++ [ESetRef (w_head w) (obj_id KCommit (commit_bytes e x msg w root))])
               ++ [EAppendHlog (log_rec e x from (Some (obj_id KCommit (commit_bytes e x msg w root))) RCommit (first_line msg))])
              ++ [EAppendBlog (w_head w) (log_rec e x from (Some (obj_id KCommit (commit_bytes e x msg w root))) RCommit (first_line msg))])
             ++ [ESetHead (w_head w)]) None).
  { intro from. unfold commit_trace. cbv zeta. rewrite apply_effects_app. rewrite <- !app_assoc. reflexivity. }
  destruct (am_mem (w_refs w) (w_head w)) eqn:Emem.
  - destruct (x_headc x) as [[hid hc]|] eqn:Ehc.
    + ev. intro Hrun. apply pair_snd_eq in Hrun. subst s'.
      exists root, subs, (Some hid). split; [reflexivity|]. split; [rewrite Ep; discriminate|].
      exact (eq_sym (Hfin _)).
    + ev. intro Hrun. discriminate Hrun.
  - ev. destruct (valid_branch_name (w_head w)) eqn:Evb.
    + ev. intro Hrun. apply pair_snd_eq in Hrun. subst s'.
      exists root, subs, None. split; [reflexivity|]. split; [rewrite Ep; discriminate|].
      exact (eq_sym (Hfin _)).
    + intro Hrun. discriminate Hrun.
Qed.

Lemma head_tree_nodes_pure : forall c s, snd (head_tree_nodes c s) = s.
Proof.
  intros c s. unfold head_tree_nodes. rewrite ev_bind_getw.
  destruct (x_headc c) as [[hid cm]|]; [|reflexivity].
  rewrite ev_bind_of_opt. destruct (get_kind _ _ _) as [d|]; [|reflexivity].
  rewrite ev_of_opt. destruct (walk_tree _ _ _); reflexivity.
Qed.

Lemma cmd_commit_ok : forall e x msg w t out s',
  cmd_commit e x msg (mkMS w t None) = (Ok out, s') ->
  user_set (x_l x) (x_g x) = true /\ do_commit e x msg (mkMS w t None) = (Ok tt, s').
Proof.
  intros e x msg w t out s'. unfold cmd_commit. rewrite ev_bind_guard.
  destruct (user_set (x_l x) (x_g x)) eqn:Eu; [|intro Hrun; discriminate Hrun].
  assert (Hdo : forall s0,
    bind (do_commit e x msg) (fun _ : unit => ret []) s0 = (Ok out, s') ->
    do_commit e x msg s0 = (Ok tt, s')).
  { intros s0 H. unfold bind in H. destruct (do_commit e x msg s0) as [[[]| |] s1].
    - unfold ret in H. apply pair_snd_eq in H. subst s1. reflexivity.
    - discriminate H.
    - discriminate H. }
  rewrite ev_bind_assoc, ev_bind_getw. cbn [ms_w].
  destruct (is_nil (w_refs w)) eqn:Enil.
  - rewrite ev_bind_assoc, ev_bind_guard.
    destruct (negb (is_nil (idx_of w))); [|intro Hrun; discriminate Hrun].
    intro Hrun. split; [reflexivity|]. apply Hdo. exact Hrun.
  - destruct (x_headc x) as [hc|] eqn:Ehc; [|intro Hrun; discriminate Hrun].
    rewrite ev_bind_assoc. unfold bind at 1.
    pose proof (head_tree_nodes_pure x (mkMS w t None)) as Hpure.
    destruct (head_tree_nodes x (mkMS w t None)) as [[ns| |] s1]; cbn [snd] in Hpure; subst s1;
      [|intro Hrun; discriminate Hrun|intro Hrun; discriminate Hrun].
    rewrite ev_bind_assoc, ev_bind_guard.
    destruct (negb (is_nil (diff_with_tree (idx_of w) ns))); [|intro Hrun; discriminate Hrun].
    intro Hrun. split; [reflexivity|]. apply Hdo. exact Hrun.
Qed.

(* MAIN (item 4, converse): a commit that succeeds was made with a complete
   identity, and the commit object it wrote — the one the current branch now
   names — is the text whose author AND committer line is
   [sign_string <effective name> <effective email> <now> <zone>] *)
Theorem commit_records_identity : forall e w x msg w' out tr,
  w_inited w = true -> ctx_of w = Some x ->
  step (ACmd e (CCommit msg)) w = (w', OOk out, tr) ->
  user_set (x_l x) (x_g x) = true /\
  exists root subs from,
    write_tree_top (idx_of w) = Some (root, subs) /\
    let sg := sign_string (user_name (x_l x) (x_g x)) (user_email (x_l x) (x_g x)) (e_time e) (e_off e) in
    let data := commit_text (obj_id KTree root) (commit_parent w) sg sg msg in
    let cid := obj_id KCommit data in
    tr = commit_trace e x msg w root subs from /\
    In (EPutObj cid (payload KCommit data)) tr /\
    parse_commit data <> None /\
    w_head w' = w_head w /\
    am_get (w_refs w') (w_head w') = Some cid /\
    st_lookup (w_objs w') cid = Some (payload KCommit data).
Proof.
  intros e w x msg w' out tr Hi Hx Hstep.
  rewrite (step_loaded e (CCommit msg) w x) in Hstep; [|discriminate|exact Hi|exact Hx].
  cbn [dispatch] in Hstep.
  destruct (cmd_commit e x msg (mkMS w [] None)) as [r s1] eqn:Erun.
  cbn [fst snd] in Hstep. destruct r as [out1| |]; cbn [outcome_of] in Hstep; try discriminate Hstep.
  destruct (cmd_commit_ok e x msg w [] out1 s1 Erun) as [Hu Hdo].
  destruct (do_commit_ok e x msg w [] s1 Hdo) as (root & subs & from & Hwt & Hp & Hs1).
  subst s1. cbn [ms_w ms_trace app] in Hstep.
  injection Hstep as Hw' _ Htr. split; [exact Hu|].
  exists root, subs, from. split; [exact Hwt|]. cbv zeta.
  fold (commit_sig e x). fold (commit_bytes e x msg w root).
  split; [symmetry; exact Htr|]. split.
  - rewrite <- Htr. unfold commit_trace. cbv zeta. apply in_or_app. right. left. reflexivity.
  - split; [exact Hp|]. rewrite <- Hw'. unfold commit_trace. cbv zeta.
    rewrite apply_effects_app. autorewrite with wfields.
    split; [reflexivity|]. split; [apply am_get_set_same | apply st_lookup_set_same].
Qed.

(* and, for an identity and an instant the reader accepts, reading that text
   back yields exactly that identity, twice *)
Theorem commit_identity_reads_back : forall e w x msg root,
  sign_ok (user_name (x_l x) (x_g x)) (user_email (x_l x) (x_g x)) (e_time e) (e_off e) ->
  (forall id, am_get (w_refs w) (w_head w) = Some id -> length id = 20%nat) ->
  let sg := mkSign (user_name (x_l x) (x_g x)) (user_email (x_l x) (x_g x)) (e_time e) (e_off e) in
  parse_commit (commit_bytes e x msg w root)
  = Some (mkCommit (obj_id KTree root)
                   (match am_get (w_refs w) (w_head w) with Some id => [id] | None => [] end)
                   (Some sg) (Some sg) msg).
Proof.
  intros e w x msg root Hsg Hlen sg. unfold commit_bytes, commit_sig, commit_parent.
  pose proof (commit_roundtrip (obj_id KTree root) (am_get (w_refs w) (w_head w))
                _ _ _ _ _ _ _ _ msg (sha1_length _) Hlen Hsg Hsg) as Hrt.
  destruct (am_get (w_refs w) (w_head w)) as [id|]; exact Hrt.
Qed.

(* ================================================================== *)
(** * 6. Examples (closed computations) *)

Local Open Scope string_scope.

Definition ex_hist : list action :=
  [ACmd env0 CInit;
   ACmd env0 (CConfig true [str "user.name"; str "G"]);
   ACmd env0 (CConfig false [str "user.name"; str "a=b c"]);
   ACmd env0 (CConfig false [str "user.email"; str "e@x.yy"])].

(* item 6: the local name wins, '=' and the blank inside survive the trip *)
Example ex_precedence :
  w_gcfg (run ex_hist w_empty) = CfgFile (Some [(str "user", [(str "name", str "G")])])
  /\ w_lcfg (run ex_hist w_empty)
     = CfgFile (Some [(str "user", [(str "name", str "a=b c"); (str "email", str "e@x.yy")])])
  /\ (exists x, run_m load_ctx (run ex_hist w_empty) = (Ok x, run ex_hist w_empty, [])
                /\ user_name (x_l x) (x_g x) = str "a=b c"
                /\ user_email (x_l x) (x_g x) = str "e@x.yy"
                /\ user_set (x_l x) (x_g x) = true).
Proof.
  split; [vm_compute; reflexivity|]. split; [vm_compute; reflexivity|].
  eexists. split; [vm_compute; reflexivity|]. repeat split; vm_compute; reflexivity.
Qed.

(* the trace of the first global setting: the file is created, then written *)
Example ex_global_created :
  snd (step (ACmd env0 (CConfig true [str "user.name"; str "G"])) (run [ACmd env0 CInit] w_empty))
  = [ESetGcfg (CfgFile (Some [])); ESetGcfg (CfgFile (Some [(str "user", [(str "name", str "G")])]))].
Proof. vm_compute. reflexivity. Qed.

(* only the global name: it is used; no email anywhere: `commit` is refused *)
Example ex_global_fallback :
  let w := run [ACmd env0 CInit; ACmd env0 (CConfig true [str "user.name"; str "G"])] w_empty in
  (exists x, ctx_of w = Some x /\ user_name (x_l x) (x_g x) = str "G" /\ user_set (x_l x) (x_g x) = false)
  /\ step (ACmd env0 (CCommit (str "m"))) w = (w, OErr, []).
Proof.
  cbv zeta. split.
  - eexists. split; [vm_compute; reflexivity|]. split; vm_compute; reflexivity.
  - vm_compute. reflexivity.
Qed.

(* a commit made with that identity: the object the branch names carries it
   in both lines (the instance of [commit_records_identity]) *)
Definition ex_commit_hist : list action :=
  ex_hist ++ [AEdit (UWrite (str "f") (str "x")); ACmd env0 (CAdd [str "f"])].

Example ex_commit_identity :
  let w := run ex_commit_hist w_empty in
  let '(w', o, tr) := step (ACmd env0 (CCommit (str "m"))) w in
  o = OOk []
  /\ exists cid p,
       am_get (w_refs w') (w_head w') = Some cid /\ st_lookup (w_objs w') cid = Some p /\
       p = payload KCommit
             (str "tree " ++ hex (obj_id KTree ((str "100644 f" ++ [x00]) ++ obj_id KBlob (str "x"))) ++ [c_nl]
              ++ str "author a=b c <e@x.yy> 1700000000 +0000" ++ [c_nl]
              ++ str "committer a=b c <e@x.yy> 1700000000 +0000" ++ [c_nl]
              ++ [c_nl] ++ str "m" ++ [c_nl])%list.
Proof.
  vm_compute. split; [reflexivity|]. eexists. eexists. repeat split.
Qed.

Local Close Scope string_scope.

(* ================================================================== *)
Print Assumptions cfg_load_wf.
Print Assumptions cfg_load_clean.
Print Assumptions cmd_config_eq.
Print Assumptions step_config_eq.
Print Assumptions cmd_config_spec.
Print Assumptions cmd_config_global_spec.
Print Assumptions config_local_spec.
Print Assumptions config_global_present_spec.
Print Assumptions config_global_absent_spec.
Print Assumptions run_cmd_emits_WfCfg.
Print Assumptions WfCfg_step.
Print Assumptions WfCfg_run.
Print Assumptions WfCfg_fault.
Print Assumptions WfCfg_prefix.
Print Assumptions CfgGood_step.
Print Assumptions CfgGood_run.
Print Assumptions other_commands_keep_configs.
Print Assumptions init_spec.
Print Assumptions broken_config_refuses.
Print Assumptions broken_config_refuses_everything.
Print Assumptions broken_config_frozen.
Print Assumptions broken_config_refuses_fault.
Print Assumptions hostile_config_refused.
Print Assumptions config_ambiguous_key_refused.
Print Assumptions config_newline_in_value_refused.
Print Assumptions config_newline_in_key_refused.
Print Assumptions config_empty_section_refused.
Print Assumptions ex_hostile_config_refused.
Print Assumptions hostile_config_refused_summary.
Print Assumptions ex_hand_broken_config.
Print Assumptions ex_newline_cannot_inject_key.
Print Assumptions effective_name_local.
Print Assumptions effective_name_global.
Print Assumptions user_set_ctx.
Print Assumptions config_global_keeps_local.
Print Assumptions config_local_keeps_global.
Print Assumptions local_name_overrides_global.
Print Assumptions global_name_used.
Print Assumptions commit_without_identity_refused.
Print Assumptions commit_without_name_refused.
Print Assumptions commit_records_identity.
Print Assumptions commit_identity_reads_back.
Print Assumptions ex_precedence.
Print Assumptions ex_global_fallback.
Print Assumptions ex_commit_identity.
