(* BranchReachFacts.v — property C10 "branch and HEAD state machine" on the
   worlds a history reaches.

   The refinement theorems of BranchFacts.v (restated in Props/C10.v) are single
   steps from an ARBITRARY world and therefore assume what an arbitrary world
   need not have: [w_inited w = true], [ctx_of w = Some x], [refs_commits_ok w],
   [blogs_cover_refs w].  Here:

   1. every one of them is derived from [Reachable w] + the standard guard
      ([w_coll w = false], [SmallStore (w_objs w)]) + [files_load w] (both
      configuration files and .goitignore read), and the theorems are restated
      with those hypotheses only ([C10_*']).  Since `config` refuses the
      arguments that would write an unloadable file, the two configuration
      files of a reachable world always load (CtxFacts.reachable_cfgs_load):
      [files_load w] is then the single condition [ignore_loads w] — the user's
      own .goitignore is in the model's alphabet — the one thing about the
      world that reachability does not give (counterexample in section 7);
      restated once more with that condition ([*''], [branch_history_*']);
   2. specification lemmas for the abstract operations: [a_switch_create_spec]
      (missing so far), complete characterisations [a_*_char] (the am_get
      description DETERMINES the result on sorted maps), definedness
      [a_*_defined], sortedness preservation, and the existing specs without the
      sortedness hypothesis on reachable worlds;
   3. the abstract machine as ONE function of the command ([a_cmd]) and the
      single-step refinement for the whole family, every parameter combination
      included ([family_step_refines]);
   4. the history-level theorems [branch_history_refines] (state) and
      [branch_history_observable] (every answer). *)
From Coq Require Import Strings.String Strings.Byte.
From Coq Require Import List Bool NArith ZArith Arith Lia ZifyBool ZifyNat ZifyN Sorted.
From Goit Require Import Bytes Sha1 Obj Refs Tree Index Regex GoRegex Commit Reflog Config Ignore World Repo.
From Goit Require Import BytesFacts ObjFacts RegexFacts MonadFacts BranchFacts Inv.
From Goit Require ConnectedFacts SnapshotFacts GateFacts ConfigCmdFacts CtxFacts.
Import ListNotations.

Arguments sha1 : simpl never.

Notation SmallStore := SnapshotFacts.SmallStore.

(* ================================================================== *)
(** * 1. What reachability gives *)

(* both configuration files and .goitignore read *)
Definition files_load (w : world) : Prop :=
  cfg_of (w_gcfg w) <> None /\ cfg_of (w_lcfg w) <> None /\
  ign_load (am_get (w_files w) (str ".goitignore"%string)) <> None.

Lemma ctx_files_load : forall w x, ctx_of w = Some x -> files_load w.
Proof.
  intros w x Hx. unfold ctx_of in Hx. unfold files_load.
  destruct (cfg_of (w_gcfg w)) as [g|]; [|discriminate Hx].
  destruct (cfg_of (w_lcfg w)) as [l|]; [|discriminate Hx].
  destruct (head_commit w) as [hc|]; [|discriminate Hx].
  destruct (ign_load (am_get (w_files w) (str ".goitignore"%string))) as [pats|]; [|discriminate Hx].
  repeat split; discriminate.
Qed.

Lemma head_commit_loads : forall w, refs_commits_ok w -> head_commit w <> None.
Proof.
  intros w Hok. unfold head_commit.
  destruct (am_get (w_refs w) (w_head w)) as [id|] eqn:Eh; [|discriminate].
  destruct (Hok _ _ Eh) as [c Hc]. rewrite Hc. discriminate.
Qed.

Lemma files_load_ctx : forall w, files_load w -> refs_commits_ok w -> exists x, ctx_of w = Some x.
Proof.
  intros w (Hg & Hl & Hp) Hok. pose proof (head_commit_loads w Hok) as Hh. unfold ctx_of.
  destruct (cfg_of (w_gcfg w)) as [g|]; [|contradiction Hg; reflexivity].
  destruct (cfg_of (w_lcfg w)) as [l|]; [|contradiction Hl; reflexivity].
  destruct (head_commit w) as [hc|]; [|contradiction Hh; reflexivity].
  destruct (ign_load (am_get (w_files w) (str ".goitignore"%string))) as [pats|]; [|contradiction Hp; reflexivity].
  eexists. reflexivity.
Qed.

(* on a world whose branches all name commits, the context loads exactly when the three files read *)
Lemma files_load_iff : forall w, refs_commits_ok w -> (files_load w <-> exists x, ctx_of w = Some x).
Proof.
  intros w Hok. split.
  - intro Hf. apply files_load_ctx; assumption.
  - intros [x Hx]. exact (ctx_files_load w x Hx).
Qed.

Lemma frame_refl : forall w, frame w w.
Proof. intro w. unfold frame. repeat split; reflexivity. Qed.

Lemma frame_trans : forall w1 w2 w3, frame w1 w2 -> frame w2 w3 -> frame w1 w3.
Proof.
  intros w1 w2 w3 (A1 & A2 & A3 & A4 & A5 & A6 & A7 & A8) (B1 & B2 & B3 & B4 & B5 & B6 & B7 & B8).
  unfold frame. repeat split; etransitivity; eassumption.
Qed.

Lemma files_load_frame : forall w w', frame w w' -> files_load w -> files_load w'.
Proof.
  intros w w' (_ & _ & _ & _ & Hl & Hg & Hf & _) (H1 & H2 & H3).
  unfold files_load. rewrite Hl, Hg, Hf. repeat split; assumption.
Qed.

Lemma commit_loads_frame : forall w w', frame w w' -> commit_loads w' = commit_loads w.
Proof. intros w w' (_ & _ & Ho & _). unfold commit_loads. rewrite Ho. reflexivity. Qed.

Lemma reachable_step : forall a w, action_ok a -> Reachable w -> Reachable (step_w a w).
Proof.
  intros a w Ha (h & Hall & ->). exists (h ++ [a]). split.
  - apply Forall_app. split; [exact Hall | constructor; [exact Ha | constructor]].
  - unfold run. rewrite fold_left_app. reflexivity.
Qed.

Lemma reachable_run : forall h w, Forall action_ok h -> Reachable w -> Reachable (run h w).
Proof.
  induction h as [|a h IH]; intros w Hall Hr; [exact Hr|].
  rewrite run_cons. inversion Hall as [|a0 h0 Ha Hh]; subst.
  apply IH; [exact Hh | apply reachable_step; assumption].
Qed.

(* every branch names a commit that loads: clause 1 of [Connected] *)
Theorem reachable_refs_commits_ok : forall w,
  Reachable w -> w_coll w = false -> SmallStore (w_objs w) -> refs_commits_ok w.
Proof.
  intros w Hr Hc Hs.
  destruct (ConnectedFacts.reachable_connected w Hr Hc Hs) as (Hrefs & _).
  intros n id Hg. exact (Hrefs n id Hg).
Qed.

Theorem reachable_blogs_cover_refs : forall w, Reachable w -> blogs_cover_refs w.
Proof. intros w (h & _ & ->). apply blogs_cover_refs_run. Qed.

Theorem reachable_refs_sorted : forall w, Reachable w -> refs_sorted w.
Proof. intros w (h & _ & ->). apply refs_sorted_run. Qed.

(* before `init` there is no branch *)
Theorem reachable_uninit_no_refs : forall w, Reachable w -> w_inited w = false -> w_refs w = [].
Proof.
  intros w Hr Hi. destruct (w_refs w) as [|kv r] eqn:Er; [reflexivity|].
  assert (Ht : w_inited w = true).
  { apply (GateFacts.reachable_inited w Hr). left. rewrite Er. discriminate. }
  rewrite Hi in Ht. discriminate Ht.
Qed.

(* the context of a reachable world loads as soon as its three files read *)
Theorem reachable_ctx_loads : forall w,
  Reachable w -> w_coll w = false -> SmallStore (w_objs w) -> files_load w ->
  exists x, ctx_of w = Some x.
Proof.
  intros w Hr Hc Hs Hf. apply files_load_ctx; [exact Hf|]. apply reachable_refs_commits_ok; assumption.
Qed.

(* on a reachable world the two configuration files always load (`config`
   refuses an empty section name and line feeds): [files_load] is the single
   condition that the user's own .goitignore reads *)
Definition ignore_loads (w : world) : Prop :=
  ign_load (am_get (w_files w) (str ".goitignore"%string)) <> None.

Theorem reachable_files_load : forall w, Reachable w -> ignore_loads w -> files_load w.
Proof.
  intros w Hr Hp. destruct (CtxFacts.reachable_cfgs_load_neq w Hr) as [Hl Hg].
  split; [exact Hg|]. split; [exact Hl | exact Hp].
Qed.

Theorem reachable_files_load_iff : forall w, Reachable w -> (files_load w <-> ignore_loads w).
Proof.
  intros w Hr. split; [intros (_ & _ & Hp); exact Hp | apply reachable_files_load; exact Hr].
Qed.

Theorem reachable_ctx_loads' : forall w,
  Reachable w -> w_coll w = false -> SmallStore (w_objs w) -> ignore_loads w ->
  exists x, ctx_of w = Some x.
Proof.
  intros w Hr Hc Hs Hp. apply reachable_ctx_loads; try assumption. apply reachable_files_load; assumption.
Qed.

(* ---------- the abstract operations where there is no branch ---------- *)
Lemma a_branch_norefs : forall name h, a_branch name (h, []) = None.
Proof. reflexivity. Qed.
Lemma a_rename_norefs : forall new h, a_rename new (h, []) = None.
Proof. reflexivity. Qed.
Lemma a_switch_norefs : forall name h, a_switch name (h, []) = None.
Proof. reflexivity. Qed.
Lemma a_switch_create_norefs : forall name h, a_switch_create name (h, []) = None.
Proof. reflexivity. Qed.
Lemma a_delete_norefs : forall name h, a_delete name (h, []) = None.
Proof. intros name h. unfold a_delete. cbn [fst snd]. rewrite andb_false_r. reflexivity. Qed.
Lemma a_update_ref_norefs : forall loads r hx h, a_update_ref loads r hx (h, []) = None.
Proof.
  intros loads r hx h. unfold a_update_ref. cbn [fst snd].
  destruct (re_search re_branchRegexp r && Nat.eqb (length hx) 40 && forallb is_lower_hex hx); [|reflexivity].
  destruct (unhex hx) as [id|]; [|reflexivity]. rewrite andb_false_r. reflexivity.
Qed.

Lemma abs_uninit : forall w, Reachable w -> w_inited w = false -> abs w = (w_head w, []).
Proof. intros w Hr Hi. unfold abs. rewrite (reachable_uninit_no_refs w Hr Hi). reflexivity. Qed.

(* ================================================================== *)
(** * 2. The refinement theorems of C10 on reachable worlds *)

Section Primed.
  Variables (w : world).
  Hypothesis (Hr : Reachable w) (Hc : w_coll w = false) (Hs : SmallStore (w_objs w)).

  Let Hok : refs_commits_ok w := reachable_refs_commits_ok w Hr Hc Hs.
  Let Hcov : blogs_cover_refs w := reachable_blogs_cover_refs w Hr.

  (* a command other than init on a world without .goit *)
  Lemma uninit_refused : forall e c w' o tr,
    c <> CInit -> w_inited w = false -> step (ACmd e c) w = (w', o, tr) -> o = OErr /\ tr = [] /\ w' = w.
  Proof.
    intros e c w' o tr Hne Hi Hstep. rewrite (step_not_loaded e c w Hne (or_introl Hi)) in Hstep.
    apply triple_inv in Hstep. destruct Hstep as (<- & <- & <-). auto.
  Qed.

  Theorem branch_create_refines' : forall e name w' o tr,
    files_load w ->
    step (ACmd e (CBranch [name] false [] [])) w = (w', o, tr) ->
    match a_branch name (abs w) with
    | Some s' => o = OOk [] /\ abs w' = s' /\ frame w w'
    | None => o = OErr /\ tr = [] /\ w' = w
    end.
  Proof.
    intros e name w' o tr Hf Hstep. destruct (w_inited w) eqn:Hi.
    - destruct (files_load_ctx w Hf Hok) as [x Hx].
      exact (branch_create_refines e name w x w' o tr Hi Hx Hstep).
    - rewrite (abs_uninit w Hr Hi), a_branch_norefs.
      apply (uninit_refused _ _ _ _ _) with (3 := Hstep); [discriminate | exact Hi].
  Qed.

  Theorem branch_delete_refines' : forall e d w' o tr,
    files_load w -> is_nil d = false ->
    step (ACmd e (CBranch [] false [] d)) w = (w', o, tr) ->
    match a_delete d (abs w) with
    | Some s' => o = OOk [] /\ abs w' = s' /\ frame w w'
    | None => o = OErr /\ tr = [] /\ w' = w
    end.
  Proof.
    intros e d w' o tr Hf Hd Hstep. destruct (w_inited w) eqn:Hi.
    - destruct (files_load_ctx w Hf Hok) as [x Hx].
      exact (branch_delete_refines e d w x w' o tr Hi Hx Hd Hcov Hstep).
    - rewrite (abs_uninit w Hr Hi), a_delete_norefs.
      apply (uninit_refused _ _ _ _ _) with (3 := Hstep); [discriminate | exact Hi].
  Qed.

  Theorem branch_rename_refines' : forall e new w' o tr,
    files_load w -> is_nil new = false ->
    step (ACmd e (CBranch [] false new [])) w = (w', o, tr) ->
    match a_rename new (abs w) with
    | Some s' => o = OOk [] /\ abs w' = s' /\ frame w w'
    | None => o = OErr /\ tr = [] /\ w' = w
    end.
  Proof.
    intros e new w' o tr Hf Hn Hstep. destruct (w_inited w) eqn:Hi.
    - destruct (files_load_ctx w Hf Hok) as [x Hx].
      exact (branch_rename_refines e new w x w' o tr Hi Hx Hn Hcov Hstep).
    - rewrite (abs_uninit w Hr Hi), a_rename_norefs.
      apply (uninit_refused _ _ _ _ _) with (3 := Hstep); [discriminate | exact Hi].
  Qed.

  Theorem switch_refines' : forall e a w' o tr,
    files_load w ->
    step (ACmd e (CSwitch [a] [])) w = (w', o, tr) ->
    match a_switch a (abs w) with
    | Some s' => o = OOk [] /\ abs w' = s' /\ frame w w'
    | None => o = OErr /\ tr = [] /\ w' = w
    end.
  Proof.
    intros e a w' o tr Hf Hstep. destruct (w_inited w) eqn:Hi.
    - destruct (files_load_ctx w Hf Hok) as [x Hx].
      exact (switch_refines e a w x w' o tr Hi Hx Hok Hstep).
    - rewrite (abs_uninit w Hr Hi), a_switch_norefs.
      apply (uninit_refused _ _ _ _ _) with (3 := Hstep); [discriminate | exact Hi].
  Qed.

  Theorem switch_create_refines' : forall e name w' o tr,
    files_load w -> is_nil name = false ->
    step (ACmd e (CSwitch [] name)) w = (w', o, tr) ->
    match a_switch_create name (abs w) with
    | Some s' => o = OOk [] /\ abs w' = s' /\ frame w w'
    | None => o = OErr /\ tr = [] /\ w' = w
    end.
  Proof.
    intros e name w' o tr Hf Hn Hstep. destruct (w_inited w) eqn:Hi.
    - destruct (files_load_ctx w Hf Hok) as [x Hx].
      exact (switch_create_refines e name w x w' o tr Hi Hx Hn Hstep).
    - rewrite (abs_uninit w Hr Hi), a_switch_create_norefs.
      apply (uninit_refused _ _ _ _ _) with (3 := Hstep); [discriminate | exact Hi].
  Qed.

  Theorem update_ref_refines' : forall e r h w' o tr,
    files_load w ->
    step (ACmd e (CUpdateRef [r; h])) w = (w', o, tr) ->
    match a_update_ref (commit_loads w) r h (abs w) with
    | Some s' => o = OOk [] /\ abs w' = s' /\ frame w w'
    | None => o = OErr /\ tr = [] /\ w' = w
    end.
  Proof.
    intros e r h w' o tr Hf Hstep. destruct (w_inited w) eqn:Hi.
    - destruct (files_load_ctx w Hf Hok) as [x Hx].
      exact (update_ref_refines e r h w x w' o tr Hi Hx Hstep).
    - rewrite (abs_uninit w Hr Hi), a_update_ref_norefs.
      apply (uninit_refused _ _ _ _ _) with (3 := Hstep); [discriminate | exact Hi].
  Qed.

  (* a refused branch, switch or update-ref command — whatever its arguments,
     whether or not the files of the context read — changes nothing *)
  Theorem refused_changes_nothing' : forall e c w' tr,
    branch_family c -> step (ACmd e c) w = (w', OErr, tr) -> tr = [] /\ w' = w.
  Proof.
    intros e c w' tr Hfam Hstep. exact (refused_branch_ops_unchanged e c w w' tr Hfam Hcov Hok Hstep).
  Qed.

  Theorem family_no_panic' : forall e c,
    branch_family c -> snd (fst (step (ACmd e c) w)) <> OPanic.
  Proof. intros e c Hfam. exact (branch_family_no_panic e c w Hfam Hcov Hok). Qed.

  (* (the two reporting commands: here [w_inited] is about the world for good) *)
  Theorem branch_list_reports' : forall e,
    w_inited w = true -> files_load w ->
    step (ACmd e (CBranch [] true [] [])) w = (w, OOk (branch_listing w), []).
  Proof.
    intros e Hi Hf. destruct (files_load_ctx w Hf Hok) as [x Hx]. exact (branch_list_reports e w x Hi Hx).
  Qed.

  Theorem rev_parse_reports' : forall e args,
    w_inited w = true -> files_load w ->
    step (ACmd e (CRevParse args)) w
    = (w, match rev_parse_out w args with Some out => OOk out | None => OErr end, []).
  Proof.
    intros e args Hi Hf. destruct (files_load_ctx w Hf Hok) as [x Hx]. exact (rev_parse_reports e args w x Hi Hx).
  Qed.
End Primed.

(* the same with [files_load w] replaced by the one condition that is left *)
Section Primed2.
  Variables (w : world).
  Hypothesis (Hr : Reachable w) (Hc : w_coll w = false) (Hs : SmallStore (w_objs w)).
  Hypothesis (Hp : ign_load (am_get (w_files w) (str ".goitignore"%string)) <> None).

  Let Hf : files_load w := reachable_files_load w Hr Hp.

  Theorem branch_create_refines'' : forall e name w' o tr,
    step (ACmd e (CBranch [name] false [] [])) w = (w', o, tr) ->
    match a_branch name (abs w) with
    | Some s' => o = OOk [] /\ abs w' = s' /\ frame w w'
    | None => o = OErr /\ tr = [] /\ w' = w
    end.
  Proof. intros e name w' o tr. exact (branch_create_refines' w Hr Hc Hs e name w' o tr Hf). Qed.

  Theorem branch_delete_refines'' : forall e d w' o tr,
    is_nil d = false ->
    step (ACmd e (CBranch [] false [] d)) w = (w', o, tr) ->
    match a_delete d (abs w) with
    | Some s' => o = OOk [] /\ abs w' = s' /\ frame w w'
    | None => o = OErr /\ tr = [] /\ w' = w
    end.
  Proof. intros e d w' o tr. exact (branch_delete_refines' w Hr Hc Hs e d w' o tr Hf). Qed.

  Theorem branch_rename_refines'' : forall e new w' o tr,
    is_nil new = false ->
    step (ACmd e (CBranch [] false new [])) w = (w', o, tr) ->
    match a_rename new (abs w) with
    | Some s' => o = OOk [] /\ abs w' = s' /\ frame w w'
    | None => o = OErr /\ tr = [] /\ w' = w
    end.
  Proof. intros e new w' o tr. exact (branch_rename_refines' w Hr Hc Hs e new w' o tr Hf). Qed.

  Theorem switch_refines'' : forall e a w' o tr,
    step (ACmd e (CSwitch [a] [])) w = (w', o, tr) ->
    match a_switch a (abs w) with
    | Some s' => o = OOk [] /\ abs w' = s' /\ frame w w'
    | None => o = OErr /\ tr = [] /\ w' = w
    end.
  Proof. intros e a w' o tr. exact (switch_refines' w Hr Hc Hs e a w' o tr Hf). Qed.

  Theorem switch_create_refines'' : forall e name w' o tr,
    is_nil name = false ->
    step (ACmd e (CSwitch [] name)) w = (w', o, tr) ->
    match a_switch_create name (abs w) with
    | Some s' => o = OOk [] /\ abs w' = s' /\ frame w w'
    | None => o = OErr /\ tr = [] /\ w' = w
    end.
  Proof. intros e name w' o tr. exact (switch_create_refines' w Hr Hc Hs e name w' o tr Hf). Qed.

  Theorem update_ref_refines'' : forall e r h w' o tr,
    step (ACmd e (CUpdateRef [r; h])) w = (w', o, tr) ->
    match a_update_ref (commit_loads w) r h (abs w) with
    | Some s' => o = OOk [] /\ abs w' = s' /\ frame w w'
    | None => o = OErr /\ tr = [] /\ w' = w
    end.
  Proof. intros e r h w' o tr. exact (update_ref_refines' w Hr Hc Hs e r h w' o tr Hf). Qed.

  Theorem branch_list_reports'' : forall e,
    w_inited w = true ->
    step (ACmd e (CBranch [] true [] [])) w = (w, OOk (branch_listing w), []).
  Proof. intros e Hi. exact (branch_list_reports' w Hr Hc Hs e Hi Hf). Qed.

  Theorem rev_parse_reports'' : forall e args,
    w_inited w = true ->
    step (ACmd e (CRevParse args)) w
    = (w, match rev_parse_out w args with Some out => OOk out | None => OErr end, []).
  Proof. intros e args Hi. exact (rev_parse_reports' w Hr Hc Hs e args Hi Hf). Qed.
End Primed2.

(* ================================================================== *)
(** * 3. Specifications of the abstract operations *)

(* BranchFacts has [a_branch_spec], [a_delete_spec], [a_rename_spec],
   [a_switch_spec], [a_update_ref_spec].  Added here: the missing
   [a_switch_create_spec]; for each operation a CHARACTERISATION (an iff): the
   operation is defined exactly under the stated conditions on the arguments and
   its result is THE state described through [am_get] — on sorted maps that
   description determines the map ([am_ext]), so nothing about the result is
   left to the definition; and sortedness is preserved. *)

Lemma am_mem_true_iff : forall V (m : amap V) k, am_mem m k = true <-> am_get m k <> None.
Proof.
  intros V m k. unfold am_mem. destruct (am_get m k) as [v|].
  - split; [discriminate | reflexivity].
  - split; [discriminate | intro H; contradiction H; reflexivity].
Qed.

Lemma astate_ext : forall (s1 s2 : astate),
  fst s1 = fst s2 -> am_sorted (snd s1) -> am_sorted (snd s2) ->
  (forall k, am_get (snd s1) k = am_get (snd s2) k) -> s1 = s2.
Proof.
  intros [h1 m1] [h2 m2] Hh H1 H2 Hext. cbn [fst snd] in *. subst h2. f_equal.
  apply am_ext; assumption.
Qed.

(* switch --create: the new branch exists afterwards, holds the commit of the
   branch that was current, is the current one; every other branch keeps its commit *)
Theorem a_switch_create_spec : forall name s s',
  a_switch_create name s = Some s' ->
  fst s' = name /\ name <> fst s /\ valid_branch_name name = true /\
  am_get (snd s) name = None /\
  am_get (snd s) (fst s) <> None /\
  am_get (snd s') name = am_get (snd s) (fst s) /\
  (forall n, n <> name -> am_get (snd s') n = am_get (snd s) n) /\
  length (snd s') = S (length (snd s)).
Proof.
  intros name [cur br] s' H. rewrite a_switch_create_eq in H. cbn [fst snd] in H |- *.
  destruct (am_get br cur) as [hid|] eqn:Ecur; [|discriminate H].
  destruct (am_mem br name) eqn:Em; cbn [negb andb] in H; [discriminate H|].
  destruct (valid_branch_name name) eqn:Ev; [|discriminate H]. injection H as <-. cbn [fst snd].
  split; [reflexivity|].
  split; [intro Heq; subst name; unfold am_mem in Em; rewrite Ecur in Em; discriminate Em|].
  split; [reflexivity|]. split; [apply am_mem_false; exact Em|]. split; [discriminate|].
  split; [apply am_get_set_same|]. split; [intros n Hn; apply am_get_set_other; exact Hn|].
  apply am_length_set_new. exact Em.
Qed.

(* [switch --create] is [branch] then [switch], as a statement about results *)
Theorem a_switch_create_two_steps : forall name s s',
  a_switch_create name s = Some s' <->
  exists s1, a_branch name s = Some s1 /\ a_switch name s1 = Some s'.
Proof.
  intros name s s'. unfold a_switch_create. destruct (a_branch name s) as [s1|].
  - split; [intro H; exists s1; auto | intros (s1' & E & H); injection E as <-; exact H].
  - split; [discriminate | intros (s1' & E & _); discriminate E].
Qed.

(* ---------- sortedness is preserved ---------- *)
Lemma a_branch_sorted : forall name s s', am_sorted (snd s) -> a_branch name s = Some s' -> am_sorted (snd s').
Proof.
  intros name [cur br] s' Hs H. unfold a_branch in H. cbn [fst snd] in H, Hs.
  destruct (am_get br cur) as [hid|]; [|discriminate H].
  destruct (negb (am_mem br name) && valid_branch_name name); [|discriminate H].
  injection H as <-. cbn [snd]. apply am_set_sorted. exact Hs.
Qed.

Lemma a_delete_sorted : forall name s s', am_sorted (snd s) -> a_delete name s = Some s' -> am_sorted (snd s').
Proof.
  intros name [cur br] s' Hs H. unfold a_delete in H. cbn [fst snd] in H, Hs.
  destruct (negb (bytes_eqb name cur) && am_mem br name); [|discriminate H].
  injection H as <-. cbn [snd]. apply am_del_sorted. exact Hs.
Qed.

Lemma a_rename_sorted : forall new s s', am_sorted (snd s) -> a_rename new s = Some s' -> am_sorted (snd s').
Proof.
  intros new [cur br] s' Hs H. unfold a_rename in H. cbn [fst snd] in H, Hs.
  destruct (am_get br cur) as [hid|]; [|discriminate H].
  destruct (negb (am_mem br new) && valid_branch_name new); [|discriminate H].
  injection H as <-. cbn [snd]. apply am_del_sorted, am_set_sorted. exact Hs.
Qed.

Lemma a_switch_sorted : forall name s s', am_sorted (snd s) -> a_switch name s = Some s' -> am_sorted (snd s').
Proof.
  intros name s s' Hs H. destruct (a_switch_spec name s s' H) as (_ & -> & _). exact Hs.
Qed.

Lemma a_switch_create_sorted : forall name s s',
  am_sorted (snd s) -> a_switch_create name s = Some s' -> am_sorted (snd s').
Proof.
  intros name s s' Hs H. apply a_switch_create_two_steps in H. destruct H as (s1 & H1 & H2).
  apply (a_switch_sorted name s1 s'); [|exact H2]. apply (a_branch_sorted name s s1); assumption.
Qed.

Lemma a_update_ref_sorted : forall loads r h s s',
  am_sorted (snd s) -> a_update_ref loads r h s = Some s' -> am_sorted (snd s').
Proof.
  intros loads r h [cur br] s' Hs H. unfold a_update_ref in H. cbn [fst snd] in H, Hs.
  destruct (re_search re_branchRegexp r && Nat.eqb (length h) 40 && forallb is_lower_hex h); [|discriminate H].
  destruct (unhex h) as [id|]; [|discriminate H].
  destruct (loads id && am_mem br (ref_leaf r)); [|discriminate H].
  injection H as <-. cbn [snd]. apply am_set_sorted. exact Hs.
Qed.

(* ---------- characterisations ---------- *)
Theorem a_branch_char : forall name s s', am_sorted (snd s) ->
  (a_branch name s = Some s' <->
   valid_branch_name name = true /\ am_get (snd s) name = None /\ am_get (snd s) (fst s) <> None /\
   fst s' = fst s /\ am_sorted (snd s') /\
   am_get (snd s') name = am_get (snd s) (fst s) /\
   (forall n, n <> name -> am_get (snd s') n = am_get (snd s) n)).
Proof.
  intros name s s' Hs. split.
  - intro H. pose proof (a_branch_sorted name s s' Hs H) as Hs'.
    destruct (a_branch_spec name s s' H) as (Hf & Hn & Hg & Ho & _).
    destruct s as [cur br]. unfold a_branch in H. cbn [fst snd] in *.
    destruct (am_get br cur) as [hid|]; [|discriminate H].
    destruct (am_mem br name); cbn [negb andb] in H; [discriminate H|].
    destruct (valid_branch_name name); [|discriminate H].
    repeat split; try assumption. discriminate.
  - intros (Hv & Hn & Hcur & Hf & Hs' & Hg & Ho).
    destruct s as [cur br]. unfold a_branch. cbn [fst snd] in *.
    destruct (am_get br cur) as [hid|] eqn:Ecur; [|contradiction Hcur; reflexivity].
    apply am_mem_false in Hn. rewrite Hn, Hv. cbn [negb andb]. f_equal.
    apply astate_ext; cbn [fst snd]; [symmetry; exact Hf | apply am_set_sorted; exact Hs | exact Hs' |].
    intro k. destruct (bytes_eq_dec k name) as [->|Hk].
    + rewrite am_get_set_same. symmetry. exact Hg.
    + rewrite am_get_set_other by exact Hk. symmetry. apply Ho. exact Hk.
Qed.

Theorem a_delete_char : forall name s s', am_sorted (snd s) ->
  (a_delete name s = Some s' <->
   name <> fst s /\ am_get (snd s) name <> None /\
   fst s' = fst s /\ am_sorted (snd s') /\
   am_get (snd s') name = None /\
   (forall n, n <> name -> am_get (snd s') n = am_get (snd s) n)).
Proof.
  intros name s s' Hs. split.
  - intro H. pose proof (a_delete_sorted name s s' Hs H) as Hs'.
    destruct (a_delete_spec name s s' Hs H) as (Hf & Hne & Hg & Ho & _).
    destruct s as [cur br]. unfold a_delete in H. cbn [fst snd] in *.
    destruct (bytes_eqb name cur); cbn [negb andb] in H; [discriminate H|].
    destruct (am_mem br name) eqn:Em; [|discriminate H]. apply am_mem_true_iff in Em.
    repeat split; assumption.
  - intros (Hne & Hm & Hf & Hs' & Hg & Ho).
    destruct s as [cur br]. unfold a_delete. cbn [fst snd] in *.
    apply bytes_eqb_neq in Hne. apply am_mem_true_iff in Hm. rewrite Hne, Hm. cbn [negb andb]. f_equal.
    apply astate_ext; cbn [fst snd]; [symmetry; exact Hf | apply am_del_sorted; exact Hs | exact Hs' |].
    intro k. destruct (bytes_eq_dec k name) as [->|Hk].
    + rewrite am_get_del_same by exact Hs. symmetry. exact Hg.
    + rewrite am_get_del_other by exact Hk. symmetry. apply Ho. exact Hk.
Qed.

Theorem a_rename_char : forall new s s', am_sorted (snd s) ->
  (a_rename new s = Some s' <->
   valid_branch_name new = true /\ am_get (snd s) new = None /\ am_get (snd s) (fst s) <> None /\
   fst s' = new /\ am_sorted (snd s') /\
   am_get (snd s') new = am_get (snd s) (fst s) /\
   am_get (snd s') (fst s) = None /\
   (forall n, n <> new -> n <> fst s -> am_get (snd s') n = am_get (snd s) n)).
Proof.
  intros new s s' Hs. split.
  - intro H. pose proof (a_rename_sorted new s s' Hs H) as Hs'.
    destruct (a_rename_spec new s s' Hs H) as (Hf & Hne & Hg & Hold & Ho & _).
    destruct s as [cur br]. unfold a_rename in H. cbn [fst snd] in *.
    destruct (am_get br cur) as [hid|]; [|discriminate H].
    destruct (am_mem br new) eqn:Em; cbn [negb andb] in H; [discriminate H|].
    destruct (valid_branch_name new); [|discriminate H]. apply am_mem_false in Em.
    repeat split; try assumption. discriminate.
  - intros (Hv & Hn & Hcur & Hf & Hs' & Hg & Hold & Ho).
    destruct s as [cur br]. unfold a_rename. cbn [fst snd] in *.
    destruct (am_get br cur) as [hid|] eqn:Ecur; [|contradiction Hcur; reflexivity].
    assert (Hne : new <> cur) by (intro Heq; congruence).
    apply am_mem_false in Hn. rewrite Hn, Hv. cbn [negb andb]. f_equal.
    apply astate_ext; cbn [fst snd];
      [symmetry; exact Hf | apply am_del_sorted, am_set_sorted; exact Hs | exact Hs' |].
    intro k. destruct (bytes_eq_dec k cur) as [->|Hk].
    + rewrite am_get_del_same by (apply am_set_sorted; exact Hs). symmetry. exact Hold.
    + rewrite am_get_del_other by exact Hk. destruct (bytes_eq_dec k new) as [->|Hk2].
      * rewrite am_get_set_same. symmetry. exact Hg.
      * rewrite am_get_set_other by exact Hk2. symmetry. apply Ho; assumption.
Qed.

Theorem a_switch_char : forall name s s',
  a_switch name s = Some s' <->
  am_get (snd s) (fst s) <> None /\ am_get (snd s) name <> None /\ s' = (name, snd s).
Proof.
  intros name [cur br] s'. unfold a_switch. cbn [fst snd]. split.
  - intro H. destruct (am_get br cur) as [hid|]; [|discriminate H].
    destruct (am_mem br name) eqn:Em; [|discriminate H]. injection H as <-.
    apply am_mem_true_iff in Em. repeat split; [discriminate | exact Em].
  - intros (Hcur & Hm & ->). destruct (am_get br cur) as [hid|]; [|contradiction Hcur; reflexivity].
    apply am_mem_true_iff in Hm. rewrite Hm. reflexivity.
Qed.

Theorem a_switch_create_char : forall name s s', am_sorted (snd s) ->
  (a_switch_create name s = Some s' <->
   valid_branch_name name = true /\ am_get (snd s) name = None /\ am_get (snd s) (fst s) <> None /\
   fst s' = name /\ am_sorted (snd s') /\
   am_get (snd s') name = am_get (snd s) (fst s) /\
   (forall n, n <> name -> am_get (snd s') n = am_get (snd s) n)).
Proof.
  intros name s s' Hs. split.
  - intro H. pose proof (a_switch_create_sorted name s s' Hs H) as Hs'.
    destruct (a_switch_create_spec name s s' H) as (Hf & _ & Hv & Hn & Hcur & Hg & Ho & _).
    repeat split; assumption.
  - intros (Hv & Hn & Hcur & Hf & Hs' & Hg & Ho). rewrite a_switch_create_eq.
    destruct s as [cur br]. cbn [fst snd] in *.
    destruct (am_get br cur) as [hid|] eqn:Ecur; [|contradiction Hcur; reflexivity].
    apply am_mem_false in Hn. rewrite Hn, Hv. cbn [negb andb]. f_equal.
    apply astate_ext; cbn [fst snd]; [symmetry; exact Hf | apply am_set_sorted; exact Hs | exact Hs' |].
    intro k. destruct (bytes_eq_dec k name) as [->|Hk].
    + rewrite am_get_set_same. symmetry. exact Hg.
    + rewrite am_get_set_other by exact Hk. symmetry. apply Ho. exact Hk.
Qed.

Theorem a_update_ref_char : forall loads r h s s', am_sorted (snd s) ->
  (a_update_ref loads r h s = Some s' <->
   re_search re_branchRegexp r = true /\ length h = 40 /\ forallb is_lower_hex h = true /\
   exists id, unhex h = Some id /\ loads id = true /\ am_get (snd s) (ref_leaf r) <> None /\
     fst s' = ref_leaf r /\ am_sorted (snd s') /\
     am_get (snd s') (ref_leaf r) = Some id /\
     (forall n, n <> ref_leaf r -> am_get (snd s') n = am_get (snd s) n)).
Proof.
  intros loads r h s s' Hs. split.
  - intro H. pose proof (a_update_ref_sorted loads r h s s' Hs H) as Hs'.
    destruct (a_update_ref_spec loads r h s s' Hs H) as (id & Hu & Hl & Hm & Hf & Hg & Ho & _).
    unfold a_update_ref in H.
    destruct (re_search re_branchRegexp r) eqn:E1; cbn [andb] in H; [|discriminate H].
    destruct (Nat.eqb (length h) 40) eqn:E2; cbn [andb] in H; [|discriminate H].
    destruct (forallb is_lower_hex h) eqn:E3; [|discriminate H].
    apply Nat.eqb_eq in E2. apply am_mem_true_iff in Hm.
    split; [reflexivity|]. split; [exact E2|]. split; [reflexivity|]. exists id. repeat split; assumption.
  - intros (E1 & E2 & E3 & id & Hu & Hl & Hm & Hf & Hs' & Hg & Ho).
    unfold a_update_ref. apply Nat.eqb_eq in E2. apply am_mem_true_iff in Hm.
    rewrite E1, E2, E3, Hu, Hl, Hm. cbn [andb]. f_equal.
    apply astate_ext; cbn [fst snd]; [symmetry; exact Hf | apply am_set_sorted; exact Hs | exact Hs' |].
    intro k. destruct (bytes_eq_dec k (ref_leaf r)) as [->|Hk].
    + rewrite am_get_set_same. symmetry. exact Hg.
    + rewrite am_get_set_other by exact Hk. symmetry. apply Ho. exact Hk.
Qed.

(* ---------- when each operation is defined ---------- *)
Theorem a_branch_defined : forall name s,
  a_branch name s <> None <->
  valid_branch_name name = true /\ am_get (snd s) name = None /\ am_get (snd s) (fst s) <> None.
Proof.
  intros name [cur br]. unfold a_branch. cbn [fst snd].
  destruct (am_get br cur) as [hid|]; [|split; [intro H; contradiction H; reflexivity | intros (_ & _ & H); contradiction H; reflexivity]].
  rewrite <- am_mem_false.
  destruct (am_mem br name); destruct (valid_branch_name name); cbn [negb andb];
    (split; [intro H; try (contradiction H; reflexivity); repeat split; discriminate
            | intros (A & B & _); try discriminate A; try discriminate B; discriminate]).
Qed.

Theorem a_delete_defined : forall name s,
  a_delete name s <> None <-> name <> fst s /\ am_get (snd s) name <> None.
Proof.
  intros name [cur br]. unfold a_delete. cbn [fst snd]. rewrite <- am_mem_true_iff, <- bytes_eqb_neq.
  destruct (bytes_eqb name cur); destruct (am_mem br name); cbn [negb andb];
    (split; [intro H; try (contradiction H; reflexivity); split; reflexivity
            | intros (A & B); try discriminate A; try discriminate B; discriminate]).
Qed.

Theorem a_rename_defined : forall new s,
  a_rename new s <> None <->
  valid_branch_name new = true /\ am_get (snd s) new = None /\ am_get (snd s) (fst s) <> None.
Proof.
  intros new [cur br]. unfold a_rename. cbn [fst snd].
  destruct (am_get br cur) as [hid|]; [|split; [intro H; contradiction H; reflexivity | intros (_ & _ & H); contradiction H; reflexivity]].
  rewrite <- am_mem_false.
  destruct (am_mem br new); destruct (valid_branch_name new); cbn [negb andb];
    (split; [intro H; try (contradiction H; reflexivity); repeat split; discriminate
            | intros (A & B & _); try discriminate A; try discriminate B; discriminate]).
Qed.

Theorem a_switch_defined : forall name s,
  a_switch name s <> None <-> am_get (snd s) (fst s) <> None /\ am_get (snd s) name <> None.
Proof.
  intros name [cur br]. unfold a_switch. cbn [fst snd]. rewrite <- (am_mem_true_iff _ br name).
  split.
  - intro H. destruct (am_get br cur) as [hid|]; [|contradiction H; reflexivity].
    destruct (am_mem br name); [|contradiction H; reflexivity]. split; [discriminate | reflexivity].
  - intros (Hcur & Hm). destruct (am_get br cur) as [hid|]; [|contradiction Hcur; reflexivity].
    rewrite Hm. discriminate.
Qed.

Theorem a_switch_create_defined : forall name s,
  a_switch_create name s <> None <-> a_branch name s <> None.
Proof.
  intros name [cur br]. rewrite a_switch_create_eq. unfold a_branch. cbn [fst snd].
  destruct (am_get br cur) as [hid|]; [|tauto].
  destruct (negb (am_mem br name) && valid_branch_name name); split; intro H; try discriminate; exact H.
Qed.

Theorem a_update_ref_defined : forall loads r h s,
  a_update_ref loads r h s <> None <->
  re_search re_branchRegexp r = true /\ length h = 40 /\ forallb is_lower_hex h = true /\
  exists id, unhex h = Some id /\ loads id = true /\ am_get (snd s) (ref_leaf r) <> None.
Proof.
  intros loads r h [cur br]. unfold a_update_ref. cbn [fst snd]. rewrite <- Nat.eqb_eq. split.
  - intro H.
    destruct (re_search re_branchRegexp r); cbn [andb] in H; [|contradiction H; reflexivity].
    destruct (Nat.eqb (length h) 40); cbn [andb] in H; [|contradiction H; reflexivity].
    destruct (forallb is_lower_hex h); [|contradiction H; reflexivity].
    destruct (unhex h) as [id|] eqn:Eu; [|contradiction H; reflexivity].
    destruct (loads id) eqn:El; cbn [andb] in H; [|contradiction H; reflexivity].
    destruct (am_mem br (ref_leaf r)) eqn:Em; [|contradiction H; reflexivity].
    apply am_mem_true_iff in Em. repeat split. exists id. repeat split; assumption.
  - intros (E1 & E2 & E3 & id & Hu & Hl & Hm). apply am_mem_true_iff in Hm.
    rewrite E1, E2, E3, Hu, Hl, Hm. cbn [andb]. discriminate.
Qed.

(* ---------- the specifications on reachable worlds: no sortedness hypothesis ---------- *)
Theorem a_delete_spec_reachable : forall w name s',
  Reachable w -> a_delete name (abs w) = Some s' ->
  fst s' = w_head w /\ name <> w_head w /\
  am_get (snd s') name = None /\
  (forall n, n <> name -> am_get (snd s') n = am_get (w_refs w) n) /\
  S (length (snd s')) = length (w_refs w).
Proof. intros w name s' Hr H. exact (a_delete_spec name (abs w) s' (reachable_refs_sorted w Hr) H). Qed.

Theorem a_rename_spec_reachable : forall w new s',
  Reachable w -> a_rename new (abs w) = Some s' ->
  fst s' = new /\ new <> w_head w /\
  am_get (snd s') new = am_get (w_refs w) (w_head w) /\
  am_get (snd s') (w_head w) = None /\
  (forall n, n <> new -> n <> w_head w -> am_get (snd s') n = am_get (w_refs w) n) /\
  length (snd s') = length (w_refs w).
Proof. intros w new s' Hr H. exact (a_rename_spec new (abs w) s' (reachable_refs_sorted w Hr) H). Qed.

Theorem a_update_ref_spec_reachable : forall w loads r h s',
  Reachable w -> a_update_ref loads r h (abs w) = Some s' ->
  exists id, unhex h = Some id /\ loads id = true /\ am_mem (w_refs w) (ref_leaf r) = true /\
    fst s' = ref_leaf r /\
    am_get (snd s') (ref_leaf r) = Some id /\
    (forall n, n <> ref_leaf r -> am_get (snd s') n = am_get (w_refs w) n) /\
    length (snd s') = length (w_refs w).
Proof. intros w loads r h s' Hr H. exact (a_update_ref_spec loads r h (abs w) s' (reachable_refs_sorted w Hr) H). Qed.

(* ================================================================== *)
(** * 4. The abstract machine as one function of the command *)

(* which abstract operation a command of the family denotes — every parameter
   combination: the ones the program refuses outright denote no operation *)
Definition a_cmd (loads : bytes -> bool) (c : cmd) (s : astate) : option astate :=
  match c with
  | CBranch [name] false [] [] => a_branch name s
  | CBranch [] true [] [] => Some s
  | CBranch [] false (r0 :: rn) [] => a_rename (r0 :: rn) s
  | CBranch [] false [] (d0 :: dl) => a_delete (d0 :: dl) s
  | CSwitch [a] [] => a_switch a s
  | CSwitch [] (c0 :: cr) => a_switch_create (c0 :: cr) s
  | CUpdateRef [r; h] => a_update_ref loads r h s
  | _ => None
  end.

(* a refused operation is the identity *)
Definition a_apply (loads : bytes -> bool) (c : cmd) (s : astate) : astate :=
  match a_cmd loads c s with Some s' => s' | None => s end.

(* what `branch --list` prints, from the abstract state *)
Definition a_listing (s : astate) : list bytes :=
  map (fun kv => (if bytes_eqb (fst kv) (fst s) then str "* "%string else []) ++ fst kv) (snd s).

Lemma branch_listing_abs : forall w, branch_listing w = a_listing (abs w).
Proof. reflexivity. Qed.

(* the lines an accepted command prints *)
Definition a_print (c : cmd) (s : astate) : list bytes :=
  match c with
  | CBranch [] true [] [] => a_listing s
  | _ => []
  end.

(* the answer of a command of the family, from the abstract state alone *)
Definition a_answer (loads : bytes -> bool) (c : cmd) (s : astate) : outcome :=
  match a_cmd loads c s with Some _ => OOk (a_print c s) | None => OErr end.

Lemma a_cmd_sorted : forall loads c s s',
  am_sorted (snd s) -> a_cmd loads c s = Some s' -> am_sorted (snd s').
Proof.
  intros loads c s s' Hs H. destruct c; try discriminate H.
  - destruct args as [|a [|b r]]; destruct list_flag; destruct rename as [|r0 rn]; destruct delete as [|d0 dl];
      cbn [a_cmd] in H; try discriminate H.
    + injection H as <-. exact Hs.
    + exact (a_delete_sorted _ _ _ Hs H).
    + exact (a_rename_sorted _ _ _ Hs H).
    + exact (a_branch_sorted _ _ _ Hs H).
  - destruct args as [|a [|b r]]; destruct create as [|c0 cr]; cbn [a_cmd] in H; try discriminate H.
    + exact (a_switch_create_sorted _ _ _ Hs H).
    + exact (a_switch_sorted _ _ _ Hs H).
  - destruct args as [|r0 [|h [|y rest]]]; cbn [a_cmd] in H; try discriminate H.
    exact (a_update_ref_sorted _ _ _ _ _ Hs H).
Qed.

Lemma a_apply_sorted : forall loads c s, am_sorted (snd s) -> am_sorted (snd (a_apply loads c s)).
Proof.
  intros loads c s Hs. unfold a_apply. destruct (a_cmd loads c s) as [s'|] eqn:E; [|exact Hs].
  exact (a_cmd_sorted loads c s s' Hs E).
Qed.

(* where there is no branch nothing is defined except the listing, and nothing moves *)
Lemma a_cmd_norefs : forall loads c h s',
  a_cmd loads c (h, []) = Some s' -> s' = (h, []) /\ c = CBranch [] true [] [].
Proof.
  intros loads c h s' H. destruct c; try discriminate H.
  - destruct args as [|a [|b r]]; destruct list_flag; destruct rename as [|r0 rn]; destruct delete as [|d0 dl];
      cbn [a_cmd] in H; try discriminate H.
    + injection H as <-. split; reflexivity.
    + rewrite a_delete_norefs in H. discriminate H.
  - destruct args as [|a [|b r]]; destruct create as [|c0 cr]; cbn [a_cmd] in H; discriminate H.
  - destruct args as [|r0 [|hx [|y rest]]]; cbn [a_cmd] in H; try discriminate H.
    rewrite a_update_ref_norefs in H. discriminate H.
Qed.

Lemma a_apply_norefs : forall loads c h, a_apply loads c (h, []) = (h, []).
Proof.
  intros loads c h. unfold a_apply. destruct (a_cmd loads c (h, [])) as [s'|] eqn:E; [|reflexivity].
  apply a_cmd_norefs in E. tauto.
Qed.

(* ================================================================== *)
(** * 5. One step of the family refines the machine: every shape at once *)

Lemma step_dispatch_err : forall e c w x w' o tr,
  c <> CInit -> w_inited w = true -> ctx_of w = Some x ->
  dispatch e c x (mkMS w [] None) = (Err, mkMS w [] None) ->
  step (ACmd e c) w = (w', o, tr) -> o = OErr /\ tr = [] /\ w' = w.
Proof.
  intros e c w x w' o tr Hne Hi Hx Hd Hstep. rewrite (step_loaded e c w x Hne Hi Hx), Hd in Hstep.
  cbn [fst snd ms_w ms_trace outcome_of] in Hstep. apply triple_inv in Hstep.
  destruct Hstep as (<- & <- & <-). auto.
Qed.

(* an arbitrary world that has the four properties the single theorems ask for *)
Theorem family_step_refines : forall e c w x w' o tr,
  branch_family c ->
  w_inited w = true -> ctx_of w = Some x -> blogs_cover_refs w -> refs_commits_ok w ->
  step (ACmd e c) w = (w', o, tr) ->
  match a_cmd (commit_loads w) c (abs w) with
  | Some s' => o = OOk (a_print c (abs w)) /\ abs w' = s' /\ frame w w'
  | None => o = OErr /\ tr = [] /\ w' = w
  end.
Proof.
  intros e c w x w' o tr Hfam Hi Hx Hcov Hok Hstep. destruct c; try contradiction Hfam.
  - (* branch *)
    destruct args as [|a [|b r]]; destruct list_flag; destruct rename as [|r0 rn]; destruct delete as [|d0 dl];
      cbn [a_cmd a_print];
      try (apply (step_dispatch_err _ _ _ x _ _ _) with (5 := Hstep);
           [discriminate | exact Hi | exact Hx | reflexivity]).
    + rewrite (branch_list_reports e w x Hi Hx) in Hstep. apply triple_inv in Hstep.
      destruct Hstep as (<- & <- & _). split; [reflexivity|]. split; [reflexivity | apply frame_refl].
    + exact (branch_delete_refines e (d0 :: dl) w x w' o tr Hi Hx eq_refl Hcov Hstep).
    + exact (branch_rename_refines e (r0 :: rn) w x w' o tr Hi Hx eq_refl Hcov Hstep).
    + exact (branch_create_refines e a w x w' o tr Hi Hx Hstep).
  - (* switch *)
    destruct args as [|a [|b r]]; destruct create as [|c0 cr]; cbn [a_cmd a_print];
      try (apply (step_dispatch_err _ _ _ x _ _ _) with (5 := Hstep);
           [discriminate | exact Hi | exact Hx | reflexivity]).
    + exact (switch_create_refines e (c0 :: cr) w x w' o tr Hi Hx eq_refl Hstep).
    + exact (switch_refines e a w x w' o tr Hi Hx Hok Hstep).
  - (* update-ref *)
    destruct args as [|r0 [|h [|y rest]]]; cbn [a_cmd a_print];
      try (apply (step_dispatch_err _ _ _ x _ _ _) with (5 := Hstep);
           [discriminate | exact Hi | exact Hx | reflexivity]).
    exact (update_ref_refines e r0 h w x w' o tr Hi Hx Hstep).
Qed.

(* the same as one equation: the answer is the abstract answer *)
Corollary family_step_answer : forall e c w x,
  branch_family c ->
  w_inited w = true -> ctx_of w = Some x -> blogs_cover_refs w -> refs_commits_ok w ->
  snd (fst (step (ACmd e c) w)) = a_answer (commit_loads w) c (abs w) /\
  abs (step_w (ACmd e c) w) = a_apply (commit_loads w) c (abs w) /\
  frame w (step_w (ACmd e c) w).
Proof.
  intros e c w x Hfam Hi Hx Hcov Hok. unfold step_w, a_answer, a_apply.
  destruct (step (ACmd e c) w) as [[w' o] tr] eqn:Hstep. cbn [fst snd].
  pose proof (family_step_refines e c w x w' o tr Hfam Hi Hx Hcov Hok Hstep) as Href.
  destruct (a_cmd (commit_loads w) c (abs w)) as [s'|].
  - destruct Href as (-> & <- & Hf). auto.
  - destruct Href as (-> & _ & ->). split; [reflexivity|]. split; [reflexivity | apply frame_refl].
Qed.

(* ---------- on reachable worlds ---------- *)
Theorem family_step_refines' : forall e c w w' o tr,
  Reachable w -> w_coll w = false -> SmallStore (w_objs w) ->
  branch_family c -> w_inited w = true -> files_load w ->
  step (ACmd e c) w = (w', o, tr) ->
  match a_cmd (commit_loads w) c (abs w) with
  | Some s' => o = OOk (a_print c (abs w)) /\ abs w' = s' /\ frame w w'
  | None => o = OErr /\ tr = [] /\ w' = w
  end.
Proof.
  intros e c w w' o tr Hr Hc Hs Hfam Hi Hf Hstep.
  pose proof (reachable_refs_commits_ok w Hr Hc Hs) as Hok.
  destruct (files_load_ctx w Hf Hok) as [x Hx].
  exact (family_step_refines e c w x w' o tr Hfam Hi Hx (reachable_blogs_cover_refs w Hr) Hok Hstep).
Qed.

Theorem family_step_refines'' : forall e c w w' o tr,
  Reachable w -> w_coll w = false -> SmallStore (w_objs w) ->
  branch_family c -> w_inited w = true ->
  ign_load (am_get (w_files w) (str ".goitignore"%string)) <> None ->
  step (ACmd e c) w = (w', o, tr) ->
  match a_cmd (commit_loads w) c (abs w) with
  | Some s' => o = OOk (a_print c (abs w)) /\ abs w' = s' /\ frame w w'
  | None => o = OErr /\ tr = [] /\ w' = w
  end.
Proof.
  intros e c w w' o tr Hr Hc Hs Hfam Hi Hp.
  exact (family_step_refines' e c w w' o tr Hr Hc Hs Hfam Hi (reachable_files_load w Hr Hp)).
Qed.

(* the state part needs no [w_inited]: before `init` both sides stand still *)
Theorem family_step_abs : forall e c w,
  Reachable w -> w_coll w = false -> SmallStore (w_objs w) ->
  branch_family c -> files_load w ->
  abs (step_w (ACmd e c) w) = a_apply (commit_loads w) c (abs w) /\
  frame w (step_w (ACmd e c) w).
Proof.
  intros e c w Hr Hc Hs Hfam Hf. destruct (w_inited w) eqn:Hi.
  - pose proof (reachable_refs_commits_ok w Hr Hc Hs) as Hok.
    destruct (files_load_ctx w Hf Hok) as [x Hx].
    destruct (family_step_answer e c w x Hfam Hi Hx (reachable_blogs_cover_refs w Hr) Hok) as (_ & Ha & Hfr).
    split; assumption.
  - assert (Hne : c <> CInit) by (intro Heq; subst c; exact Hfam).
    unfold step_w. rewrite (step_not_loaded e c w Hne (or_introl Hi)). cbn [fst].
    rewrite (abs_uninit w Hr Hi), a_apply_norefs. split; [reflexivity | apply frame_refl].
Qed.

(* the guard and [files_load] travel along the family *)
Lemma family_step_keeps : forall e c w,
  Reachable w -> w_coll w = false -> SmallStore (w_objs w) ->
  branch_family c -> files_load w ->
  let w' := step_w (ACmd e c) w in
  Reachable w' /\ w_coll w' = false /\ SmallStore (w_objs w') /\ files_load w' /\
  commit_loads w' = commit_loads w /\ w_inited w' = w_inited w.
Proof.
  intros e c w Hr Hc Hs Hfam Hf w'.
  destruct (family_step_abs e c w Hr Hc Hs Hfam Hf) as (_ & Hfr). fold w' in Hfr.
  split; [apply reachable_step; [exact Logic.I | exact Hr]|].
  pose proof Hfr as (Hin & _ & Ho & Hco & _).
  split; [rewrite Hco; exact Hc|]. split; [rewrite Ho; exact Hs|].
  split; [exact (files_load_frame w w' Hfr Hf)|]. split; [exact (commit_loads_frame w w' Hfr) | exact Hin].
Qed.

(* ================================================================== *)
(** * 6. Histories *)

Definition family_action (a : action) : Prop :=
  match a with ACmd _ c => branch_family c | AEdit _ => False end.

Definition a_act (loads : bytes -> bool) (a : action) (s : astate) : astate :=
  match a with ACmd _ c => a_apply loads c s | AEdit _ => s end.

(* the abstract run: the fold of the abstract operations, refused ones being the identity *)
Definition a_run (loads : bytes -> bool) (h : list action) (s : astate) : astate :=
  fold_left (fun s a => a_act loads a s) h s.

Lemma a_run_cons : forall loads a h s, a_run loads (a :: h) s = a_run loads h (a_act loads a s).
Proof. reflexivity. Qed.

Lemma a_run_app : forall loads h1 h2 s, a_run loads (h1 ++ h2) s = a_run loads h2 (a_run loads h1 s).
Proof. intros loads h1 h2 s. unfold a_run. apply fold_left_app. Qed.

Lemma family_actions_ok : forall h, Forall family_action h -> Forall action_ok h.
Proof.
  intros h H. apply (Forall_impl action_ok) with (2 := H).
  intros [e c|u] Ha; [exact Logic.I | contradiction Ha].
Qed.

(* Running any history of branch / switch / update-ref commands (any arguments,
   any flags, accepted or refused) from a reachable world: the concrete
   (HEAD, branches) is the abstract run from the abstract state; index, objects,
   configuration and work tree are untouched; "which ids load as commits" is
   the one of the starting world throughout. *)
Theorem branch_history_refines : forall h w,
  Reachable w -> w_coll w = false -> SmallStore (w_objs w) -> files_load w ->
  Forall family_action h ->
  abs (run h w) = a_run (commit_loads w) h (abs w) /\ frame w (run h w).
Proof.
  induction h as [|a h IH]; intros w Hr Hc Hs Hf Hall.
  - split; [reflexivity | apply frame_refl].
  - inversion Hall as [|a0 h0 Ha Hh]; subst. destruct a as [e c|u]; [|contradiction Ha].
    cbn [family_action] in Ha. rewrite run_cons, a_run_cons. cbn [a_act].
    destruct (family_step_abs e c w Hr Hc Hs Ha Hf) as (Habs & Hfr).
    destruct (family_step_keeps e c w Hr Hc Hs Ha Hf) as (Hr' & Hc' & Hs' & Hf' & Hl' & _).
    destruct (IH (step_w (ACmd e c) w) Hr' Hc' Hs' Hf' Hh) as (IHa & IHf).
    rewrite IHa, Hl', Habs. split; [reflexivity|].
    exact (frame_trans _ _ _ Hfr IHf).
Qed.

Theorem branch_history_refines' : forall h w,
  Reachable w -> w_coll w = false -> SmallStore (w_objs w) ->
  ign_load (am_get (w_files w) (str ".goitignore"%string)) <> None ->
  Forall family_action h ->
  abs (run h w) = a_run (commit_loads w) h (abs w) /\ frame w (run h w).
Proof.
  intros h w Hr Hc Hs Hp. exact (branch_history_refines h w Hr Hc Hs (reachable_files_load w Hr Hp)).
Qed.

(* the invariants of the branch map hold of the abstract run as well *)
Lemma a_run_sorted : forall loads h s, am_sorted (snd s) -> am_sorted (snd (a_run loads h s)).
Proof.
  intros loads. induction h as [|a h IH]; intros s Hs; [exact Hs|].
  rewrite a_run_cons. apply IH. destruct a as [e c|u]; [apply a_apply_sorted; exact Hs | exact Hs].
Qed.

(* from the empty directory: a prefix of anything, then the family *)
Corollary branch_history_refines_empty : forall h0 h,
  Forall action_ok h0 ->
  w_coll (run h0 w_empty) = false -> SmallStore (w_objs (run h0 w_empty)) ->
  files_load (run h0 w_empty) -> Forall family_action h ->
  abs (run (h0 ++ h) w_empty)
  = a_run (commit_loads (run h0 w_empty)) h (abs (run h0 w_empty)) /\
  frame (run h0 w_empty) (run (h0 ++ h) w_empty).
Proof.
  intros h0 h Hall Hc Hs Hf Hfam.
  assert (Hr : Reachable (run h0 w_empty)) by (exists h0; split; [exact Hall | reflexivity]).
  assert (E : run (h0 ++ h) w_empty = run h (run h0 w_empty)) by (unfold run; apply fold_left_app).
  rewrite E. exact (branch_history_refines h (run h0 w_empty) Hr Hc Hs Hf Hfam).
Qed.

Corollary branch_history_refines_empty' : forall h0 h,
  Forall action_ok h0 ->
  w_coll (run h0 w_empty) = false -> SmallStore (w_objs (run h0 w_empty)) ->
  ign_load (am_get (w_files (run h0 w_empty)) (str ".goitignore"%string)) <> None ->
  Forall family_action h ->
  abs (run (h0 ++ h) w_empty)
  = a_run (commit_loads (run h0 w_empty)) h (abs (run h0 w_empty)) /\
  frame (run h0 w_empty) (run (h0 ++ h) w_empty).
Proof.
  intros h0 h Hall Hc Hs Hp Hfam. apply branch_history_refines_empty; try assumption.
  apply reachable_files_load; [exists h0; split; [exact Hall | reflexivity] | exact Hp].
Qed.

(* ---------- every answer along the way ---------- *)
Fixpoint outcomes (h : list action) (w : world) : list outcome :=
  match h with
  | [] => []
  | a :: r => snd (fst (step a w)) :: outcomes r (step_w a w)
  end.

Fixpoint a_outcomes (loads : bytes -> bool) (h : list action) (s : astate) : list outcome :=
  match h with
  | [] => []
  | a :: r =>
      match a with
      | ACmd _ c => a_answer loads c s
      | AEdit _ => OOk []
      end :: a_outcomes loads r (a_act loads a s)
  end.

(* In an initialised reachable world the whole observable behaviour of a
   history of the family — every answer: accepted or refused, the lines printed
   by `branch --list` — is the behaviour of the abstract machine.  In
   particular no command of such a history panics. *)
Theorem branch_history_observable : forall h w,
  Reachable w -> w_coll w = false -> SmallStore (w_objs w) ->
  w_inited w = true -> files_load w ->
  Forall family_action h ->
  outcomes h w = a_outcomes (commit_loads w) h (abs w).
Proof.
  induction h as [|a h IH]; intros w Hr Hc Hs Hi Hf Hall; [reflexivity|].
  inversion Hall as [|a0 h0 Ha Hh]; subst. destruct a as [e c|u]; [|contradiction Ha].
  cbn [family_action] in Ha. cbn [outcomes a_outcomes a_act].
  pose proof (reachable_refs_commits_ok w Hr Hc Hs) as Hok.
  destruct (files_load_ctx w Hf Hok) as [x Hx].
  destruct (family_step_answer e c w x Ha Hi Hx (reachable_blogs_cover_refs w Hr) Hok) as (Hans & Habs & _).
  destruct (family_step_keeps e c w Hr Hc Hs Ha Hf) as (Hr' & Hc' & Hs' & Hf' & Hl' & Hi').
  rewrite Hans. f_equal.
  rewrite (IH (step_w (ACmd e c) w) Hr' Hc' Hs' (eq_trans Hi' Hi) Hf' Hh), Hl', Habs. reflexivity.
Qed.

Theorem branch_history_observable' : forall h w,
  Reachable w -> w_coll w = false -> SmallStore (w_objs w) ->
  w_inited w = true ->
  ign_load (am_get (w_files w) (str ".goitignore"%string)) <> None ->
  Forall family_action h ->
  outcomes h w = a_outcomes (commit_loads w) h (abs w).
Proof.
  intros h w Hr Hc Hs Hi Hp.
  exact (branch_history_observable h w Hr Hc Hs Hi (reachable_files_load w Hr Hp)).
Qed.

Lemma a_answer_not_panic : forall loads c s, a_answer loads c s <> OPanic.
Proof. intros loads c s. unfold a_answer. destruct (a_cmd loads c s); discriminate. Qed.

(* whether or not the files of the context read, a command of the family
   leaves index, objects, configuration and work tree alone *)
Lemma family_step_frame : forall e c w,
  Reachable w -> w_coll w = false -> SmallStore (w_objs w) ->
  branch_family c -> frame w (step_w (ACmd e c) w).
Proof.
  intros e c w Hr Hc Hs Hfam.
  assert (Hne : c <> CInit) by (intro Heq; subst c; exact Hfam).
  destruct (w_inited w) eqn:Hi; [destruct (ctx_of w) as [x|] eqn:Hx|].
  - pose proof (reachable_refs_commits_ok w Hr Hc Hs) as Hok.
    destruct (family_step_answer e c w x Hfam Hi Hx (reachable_blogs_cover_refs w Hr) Hok) as (_ & _ & Hfr).
    exact Hfr.
  - unfold step_w. rewrite (step_not_loaded e c w Hne (or_intror Hx)). apply frame_refl.
  - unfold step_w. rewrite (step_not_loaded e c w Hne (or_introl Hi)). apply frame_refl.
Qed.

Corollary branch_history_never_panics : forall h w,
  Reachable w -> w_coll w = false -> SmallStore (w_objs w) ->
  Forall family_action h -> ~ In OPanic (outcomes h w).
Proof.
  induction h as [|a h IH]; intros w Hr Hc Hs Hall; [intros []|].
  inversion Hall as [|a0 h0 Ha Hh]; subst. destruct a as [e c|u]; [|contradiction Ha].
  cbn [family_action] in Ha. cbn [outcomes]. intros [Hp|Hp].
  - exact (family_no_panic' w Hr Hc Hs e c Ha Hp).
  - revert Hp. destruct (family_step_frame e c w Hr Hc Hs Ha) as (_ & _ & Ho & Hco & _).
    apply IH; [apply reachable_step; [exact Logic.I | exact Hr] | | | exact Hh].
    + rewrite Hco. exact Hc.
    + rewrite Ho. exact Hs.
Qed.

(* ================================================================== *)
(** * 7. Examples (closed computations) *)

Section Examples.
  Local Open Scope string_scope.
  Let bx_env : env := mkEnv 1700000000 0.
  Let cmd_ (c : cmd) : action := ACmd bx_env c.

  Definition bx_base : list action :=
    [cmd_ CInit;
     cmd_ (CConfig false [str "user.name"; str "t"]);
     cmd_ (CConfig false [str "user.email"; str "t@x.io"]);
     AEdit (UWrite (str "f") (str "x"));
     cmd_ (CAdd [str "f"]);
     cmd_ (CCommit (str "m"))].
  Definition bx_w0 := Eval vm_compute in run bx_base w_empty.
  Lemma bx_w0_run : run bx_base w_empty = bx_w0.
  Proof. vm_compute. reflexivity. Qed.

  Lemma bx_w0_reachable : Reachable bx_w0.
  Proof.
    exists bx_base. split; [|symmetry; exact bx_w0_run].
    apply ConnectedFacts.action_ok_b_ok. vm_compute. reflexivity.
  Qed.
  Lemma bx_w0_coll : w_coll bx_w0 = false.
  Proof. vm_compute. reflexivity. Qed.
  Lemma bx_w0_small : SmallStore (w_objs bx_w0).
  Proof. apply SnapshotFacts.small_store_b. vm_compute. reflexivity. Qed.
  Lemma bx_w0_files : files_load bx_w0.
  Proof. unfold files_load. repeat split; vm_compute; discriminate. Qed.

  Definition bx_id := Eval vm_compute in match am_get (w_refs bx_w0) (str "main") with Some id => id | None => [] end.
  Definition bx_hex := Eval vm_compute in hex bx_id.

  (* accepted and refused commands, hostile parameter combinations included *)
  Definition bx_fam : list action :=
    [cmd_ (CBranch [str "dev"] false [] []);             (* branch dev *)
     cmd_ (CSwitch [str "dev"] []);                      (* switch dev *)
     cmd_ (CBranch [] false (str "trunk") []);           (* dev becomes trunk, HEAD follows *)
     cmd_ (CBranch [] false [] (str "main"));            (* delete main *)
     cmd_ (CBranch [] false [] (str "trunk"));           (* refused: the current branch *)
     cmd_ (CSwitch [] []);                               (* refused: no argument *)
     cmd_ (CSwitch [str "gone"] []);                     (* refused: unknown *)
     cmd_ (CSwitch [str "a"] (str "b"));                 (* refused: both *)
     cmd_ (CSwitch [] (str "main"));                     (* create main again, switch to it *)
     cmd_ (CBranch [str "x/y"] false [] []);             (* refused: unsafe name *)
     cmd_ (CUpdateRef [str "refs/heads/trunk"; bx_hex]); (* HEAD goes to trunk *)
     cmd_ (CUpdateRef [str "refs/heads/trunk"]);         (* refused: arity *)
     cmd_ (CBranch [str "q"] true [] []);                (* refused: name and --list *)
     cmd_ (CBranch [] true [] [])].                      (* list *)

  Lemma bx_fam_family : Forall family_action bx_fam.
  Proof. repeat constructor. Qed.

  Example bx_abstract_run :
    a_run (commit_loads bx_w0) bx_fam (abs bx_w0)
    = (str "trunk", [(str "main", bx_id); (str "trunk", bx_id)]).
  Proof. vm_compute. reflexivity. Qed.

  (* the concrete state, obtained from the theorem and the abstract computation *)
  Example bx_concrete_state :
    w_head (run bx_fam bx_w0) = str "trunk" /\
    w_refs (run bx_fam bx_w0) = [(str "main", bx_id); (str "trunk", bx_id)].
  Proof.
    destruct (branch_history_refines bx_fam bx_w0 bx_w0_reachable bx_w0_coll bx_w0_small bx_w0_files bx_fam_family)
      as (Ha & _).
    rewrite bx_abstract_run in Ha. unfold abs in Ha. apply pair_equal_spec in Ha. exact Ha.
  Qed.

  Example bx_abstract_answers :
    a_outcomes (commit_loads bx_w0) bx_fam (abs bx_w0)
    = [OOk []; OOk []; OOk []; OOk []; OErr; OErr; OErr; OErr; OOk []; OErr; OOk []; OErr; OErr;
       OOk [str "main"; str "* trunk"]].
  Proof. vm_compute. reflexivity. Qed.

  Example bx_concrete_answers :
    outcomes bx_fam bx_w0
    = [OOk []; OOk []; OOk []; OOk []; OErr; OErr; OErr; OErr; OOk []; OErr; OOk []; OErr; OErr;
       OOk [str "main"; str "* trunk"]].
  Proof.
    rewrite (branch_history_observable bx_fam bx_w0 bx_w0_reachable bx_w0_coll bx_w0_small eq_refl
               bx_w0_files bx_fam_family).
    exact bx_abstract_answers.
  Qed.

  (* (the theorem is not needed to know this: the direct computation agrees) *)
  Example bx_direct : abs (run bx_fam bx_w0) = (str "trunk", [(str "main", bx_id); (str "trunk", bx_id)]).
  Proof. vm_compute. reflexivity. Qed.

  (* ---------- [files_load] cannot be dropped ---------- *)
  (* A .goitignore line outside the alphabet of Ignore.v (a comment line) makes
     the ignore file unreadable for the model (CtxFacts.cx_ignore_breaks_ctx):
     the world is reachable, the guard holds, both configuration files load,
     the abstract [switch] is defined — and the command is refused, like every
     other one.  So the statements of section 2 with [Reachable] and the guard
     alone are FALSE; what is missing is exactly [files_load], that is — the
     configuration files of a reachable world always load — [ignore_loads].
     (The former witness, `config user.name "a\nb"`, is refused since the
     repair of `config`: [cx_old_witness_refused].) *)
  Definition cx_hist : list action :=
    bx_base ++ [cmd_ (CBranch [str "dev"] false [] []);
                AEdit (UWrite (str ".goitignore") (str "# comment" ++ [x0a])%list)].
  Definition cx_w := Eval vm_compute in run cx_hist w_empty.
  Lemma cx_w_run : run cx_hist w_empty = cx_w.
  Proof. vm_compute. reflexivity. Qed.

  Example cx_reachable_guard : Reachable cx_w /\ w_coll cx_w = false /\ SmallStore (w_objs cx_w) /\ w_inited cx_w = true.
  Proof.
    split; [|split; [|split]].
    - exists cx_hist. split; [|symmetry; exact cx_w_run].
      apply ConnectedFacts.action_ok_b_ok. vm_compute. reflexivity.
    - vm_compute. reflexivity.
    - apply SnapshotFacts.small_store_b. vm_compute. reflexivity.
    - vm_compute. reflexivity.
  Qed.

  Example cx_files_do_not_load :
    ~ files_load cx_w /\ ~ ignore_loads cx_w /\
    cfg_of (w_gcfg cx_w) <> None /\ cfg_of (w_lcfg cx_w) <> None /\
    ign_line (str "# comment") = None.
  Proof.
    assert (Hn : ign_load (am_get (w_files cx_w) (str ".goitignore")) = None) by (vm_compute; reflexivity).
    split; [intros (_ & _ & Hp); exact (Hp Hn)|].
    split; [intro Hp; exact (Hp Hn)|].
    split; [vm_compute; discriminate|].
    split; [vm_compute; discriminate | vm_compute; reflexivity].
  Qed.

  Example cx_switch_defined_but_refused :
    a_switch (str "dev") (abs cx_w) = Some (str "dev", w_refs cx_w) /\
    step (cmd_ (CSwitch [str "dev"] [])) cx_w = (cx_w, OErr, []).
  Proof. split; vm_compute; reflexivity. Qed.

  (* the former witness: the `config` call is refused, the files still load *)
  Example cx_old_witness_refused :
    let w1 := run (bx_base ++ [cmd_ (CBranch [str "dev"] false [] [])]) w_empty in
    step (cmd_ (CConfig false [str "user.name"; [x61; x0a; x62]])) w1 = (w1, OErr, []) /\
    files_load w1.
  Proof.
    split; [vm_compute; reflexivity|].
    unfold files_load. repeat split; vm_compute; discriminate.
  Qed.

  (* the refused-changes-nothing theorem, which does not ask for [files_load], applies *)
  Example cx_refused_unchanged : forall c w' tr,
    branch_family c -> step (cmd_ c) cx_w = (w', OErr, tr) -> tr = [] /\ w' = cx_w.
  Proof.
    intros c w' tr Hfam Hstep. destruct cx_reachable_guard as (Hr & Hc & Hs & _).
    exact (refused_changes_nothing' cx_w Hr Hc Hs bx_env c w' tr Hfam Hstep).
  Qed.
End Examples.

(* ================================================================== *)
Print Assumptions reachable_refs_commits_ok.
Print Assumptions reachable_ctx_loads.
Print Assumptions branch_create_refines'.
Print Assumptions branch_delete_refines'.
Print Assumptions branch_rename_refines'.
Print Assumptions switch_refines'.
Print Assumptions switch_create_refines'.
Print Assumptions update_ref_refines'.
Print Assumptions refused_changes_nothing'.
Print Assumptions family_no_panic'.
Print Assumptions branch_list_reports'.
Print Assumptions rev_parse_reports'.
Print Assumptions a_switch_create_spec.
Print Assumptions a_branch_char.
Print Assumptions a_delete_char.
Print Assumptions a_rename_char.
Print Assumptions a_switch_char.
Print Assumptions a_switch_create_char.
Print Assumptions a_update_ref_char.
Print Assumptions a_update_ref_defined.
Print Assumptions a_delete_spec_reachable.
Print Assumptions a_rename_spec_reachable.
Print Assumptions a_update_ref_spec_reachable.
Print Assumptions family_step_refines.
Print Assumptions family_step_refines'.
Print Assumptions reachable_files_load.
Print Assumptions family_step_refines''.
Print Assumptions branch_history_refines'.
Print Assumptions branch_history_refines_empty'.
Print Assumptions branch_history_observable'.
Print Assumptions switch_refines''.
Print Assumptions update_ref_refines''.
Print Assumptions cx_files_do_not_load.
Print Assumptions cx_old_witness_refused.
Print Assumptions family_step_abs.
Print Assumptions branch_history_refines.
Print Assumptions branch_history_refines_empty.
Print Assumptions branch_history_observable.
Print Assumptions branch_history_never_panics.
Print Assumptions bx_concrete_state.
Print Assumptions cx_switch_defined_but_refused.
