(* Tree.v — tree objects: Goit's writer (cmd/writeTree.go), Goit's reader
   (internal/object/tree.go walkTree, after the SplitN/empty-tree repair),
   flattening (store.getEntriesFromTree), lookup (object.GetNode, after the
   linear-scan repair), and an independent specification reader. *)
From Coq Require Import Strings.Byte.
From Coq Require Import List Bool NArith.
From Goit Require Import Bytes Sha1 Obj.
Import ListNotations.

Record entry := mkE { e_id : bytes; e_path : bytes }.

Definition entry_eqb (a b : entry) : bool :=
  bytes_eqb (e_id a) (e_id b) && bytes_eqb (e_path a) (e_path b).

Definition mode_file : bytes := [x31; x30; x30; x36; x34; x34].   (* "100644" *)
Definition mode_dir : bytes := [x30; x34; x30; x30; x30; x30].    (* "040000" *)

Definition tree_line (mode name id : bytes) : bytes := mode ++ [c_sp] ++ name ++ [c_nul] ++ id.

(* ---------- writer ---------- *)
(* writeTreeObject: one pass over the entries; consecutive entries with the
   same first path component are buffered and written as a sub-tree.  Returns
   this tree's data and the data of every sub-tree written on the way, in the
   order Goit writes them (children before parents). *)
Fixpoint write_tree (fuel : nat) (es : list entry) : option (bytes * list bytes) :=
  match fuel with
  | O => None
  | S f =>
    let flush (dir : bytes) (buf : list entry) (data : bytes) (subs : list bytes) :=
      match write_tree f buf with
      | None => None
      | Some (d, ss) =>
          Some (data ++ tree_line mode_dir dir (obj_id KTree d), subs ++ ss ++ [d])
      end in
    let fix loop (es : list entry) (dir : bytes) (buf : list entry) (data : bytes)
                 (subs : list bytes) {struct es} : option (bytes * list bytes) :=
      match es with
      | [] => if is_nil dir then Some (data, subs) else flush dir buf data subs
      | e :: es' =>
        match split1 c_slash (e_path e) with
        | (_, None) =>
            match (if is_nil dir then Some (data, subs) else flush dir buf data subs) with
            | None => None
            | Some (data', subs') =>
                loop es' [] [] (data' ++ tree_line mode_file (e_path e) (e_id e)) subs'
            end
        | (d, Some rest) =>
            let ne := mkE (e_id e) rest in
            if is_nil dir then loop es' d (buf ++ [ne]) data subs
            else if bytes_eqb dir d then loop es' dir (buf ++ [ne]) data subs
            else match flush dir buf data subs with
                 | None => None
                 | Some (data', subs') => loop es' d [ne] data' subs'
                 end
        end
      end in
    loop es [] [] [] []
  end.

(* depth of a path = number of '/' in it; fuel S (max depth) suffices *)
Definition path_depth (p : bytes) : nat := length (filter (fun c => beqb c c_slash) p).
Definition max_depth (es : list entry) : nat := fold_right (fun e m => Nat.max (path_depth (e_path e)) m) O es.
Definition write_tree_top (es : list entry) : option (bytes * list bytes) :=
  write_tree (S (S (max_depth es))) es.

(* ---------- Goit's reader ---------- *)
Inductive node := Node (n_id : bytes) (n_name : bytes) (n_children : list node).
Definition n_id (n : node) := let 'Node i _ _ := n in i.
Definition n_name (n : node) := let 'Node _ m _ := n in m.
Definition n_children (n : node) := let 'Node _ _ c := n in c.
Definition is_leaf (n : node) : bool := is_nil (n_children n).

(* one level: "<mode> <name>\0<20 bytes>" repeated; an empty line ends the
   list (so does the end of the data).  [None] = malformed. *)
Fixpoint parse_tree_items (fuel : nat) (data : bytes) : option (list (bytes * bytes * bytes)) :=
  match fuel with
  | O => None
  | S f =>
    let '(line, rest) := split1 c_nul data in
    match line with
    | [] => Some []
    | _ =>
      match split1 c_sp line with
      | (_, None) => None
      | (mode, Some name) =>
          let r := match rest with Some r => r | None => [] end in
          let id := firstn 20 r in
          if Nat.eqb (length id) 20 then
            match parse_tree_items f (skipn 20 r) with
            | None => None
            | Some l => Some ((mode, name, id) :: l)
            end
          else None
      end
    end
  end.

Fixpoint walk_tree (fuel : nat) (st : store) (data : bytes) : option (list node) :=
  match fuel with
  | O => None
  | S f =>
    match parse_tree_items (S (length data)) data with
    | None => None
    | Some items =>
      (fix go (items : list (bytes * bytes * bytes)) : option (list node) :=
         match items with
         | [] => Some []
         | (mode, name, id) :: r =>
             let sub :=
               if bytes_eqb mode mode_dir then
                 match get_kind st KTree id with
                 | None => None
                 | Some d => walk_tree f st d
                 end
               else Some [] in
             match sub, go r with
             | Some ch, Some ns => Some (Node id name ch :: ns)
             | _, _ => None
             end
         end) items
    end
  end.

(* store.getEntriesFromTree *)
Definition join_path (root name : bytes) : bytes :=
  match root with [] => name | _ => root ++ [c_slash] ++ name end.

Fixpoint flatten_node (root : bytes) (n : node) : list entry :=
  let 'Node id name ch := n in
  match ch with
  | [] => [mkE id (join_path root name)]
  | _ => (fix go (l : list node) : list entry :=
            match l with [] => [] | c :: r => flatten_node (join_path root name) c ++ go r end) ch
  end.
Definition flatten (root : bytes) (ns : list node) : list entry :=
  flat_map (flatten_node root) ns.

(* object.GetNode after the repair: scan in child order, honour the rest of
   the path; a leaf cannot be descended into *)
Fixpoint get_node_fuel (fuel : nat) (ns : list node) (path : bytes) : option node :=
  match fuel with
  | O => None
  | S f =>
    let '(name, rest) := split1 c_slash path in
    (fix scan (l : list node) : option node :=
       match l with
       | [] => None
       | c :: r =>
           if bytes_eqb (n_name c) name then
             match rest with
             | None => Some c
             | Some p' =>
                 if is_leaf c then scan r
                 else match get_node_fuel f (n_children c) p' with
                      | Some x => Some x
                      | None => scan r
                      end
             end
           else scan r
       end) ns
  end.
Definition get_node (ns : list node) (path : bytes) : option node :=
  get_node_fuel (S (S (path_depth path))) ns path.

(* Tree.String (cat-file -p): kind, id, name of the direct children *)
Definition tree_listing (ns : list node) : list (bool * bytes * bytes) :=
  map (fun n => (negb (is_leaf n), n_id n, n_name n)) ns.

(* ---------- independent specification reader ---------- *)
(* The simplest reader of the Git tree format: mode up to the first space,
   name up to the first NUL, 20 raw bytes. *)
Fixpoint take_until (b : byte) (l : bytes) : option (bytes * bytes) :=
  match l with
  | [] => None
  | c :: r => if beqb c b then Some ([], r)
              else match take_until b r with
                   | Some (a, t) => Some (c :: a, t)
                   | None => None
                   end
  end.

Fixpoint spec_items (fuel : nat) (data : bytes) : option (list (bytes * bytes * bytes)) :=
  match fuel with
  | O => None
  | S f =>
    match data with
    | [] => Some []
    | _ =>
      match take_until c_sp data with
      | None => None
      | Some (mode, r1) =>
        match take_until c_nul r1 with
        | None => None
        | Some (name, r2) =>
          let id := firstn 20 r2 in
          if Nat.eqb (length id) 20 then
            match spec_items f (skipn 20 r2) with
            | None => None
            | Some l => Some ((mode, name, id) :: l)
            end
          else None
        end
      end
    end
  end.

Fixpoint spec_flatten (fuel : nat) (st : store) (pre : bytes) (id : bytes) : option (list entry) :=
  match fuel with
  | O => None
  | S f =>
    match st_lookup st id with
    | None => None
    | Some p =>
      match parse_payload p with
      | Some (KTree, data) =>
        match spec_items (S (length data)) data with
        | None => None
        | Some items =>
          (fix go (items : list (bytes * bytes * bytes)) : option (list entry) :=
             match items with
             | [] => Some []
             | (mode, name, cid) :: r =>
                 let full := join_path pre name in
                 let sub := if bytes_eqb mode mode_dir then spec_flatten f st full cid
                            else Some [mkE cid full] in
                 match sub, go r with
                 | Some a, Some b => Some (a ++ b)
                 | _, _ => None
                 end
             end) items
        end
      | _ => None
      end
    end
  end.
