(* Ignore.v — .goitignore: translation of a line into a pattern and the
   component-boundary match (internal/store/ignore.go after the repair).

   Goit builds a regexp *string* from each line and hands it to regexp.
   Modelling that for arbitrary lines would need an RE2 parser in Coq; the
   model covers lines over the alphabet for which the string Goit builds has
   an obvious reading: letters, digits, '-', '_', '/', space, ',', '=', '@', '%', '~', '!', '.', '*'.
   Other lines make [ign_line] return None (outside the modelled domain). *)
From Coq Require Import Strings.String Strings.Byte.
From Coq Require Import List Bool NArith.
From Goit Require Import Bytes Regex GoRegex.
Import ListNotations.

Definition is_inert (c : byte) : bool :=
  let n := bN c in
  (N.leb 48 n && N.leb n 57) || (N.leb 65 n && N.leb n 90) || (N.leb 97 n && N.leb n 122)
  || N.eqb n 45 || N.eqb n 95 || N.eqb n 47
  || N.eqb n 32 || N.eqb n 44 || N.eqb n 61 || N.eqb n 64 || N.eqb n 37 || N.eqb n 126 || N.eqb n 33.
(* also literal in Go's RE2: space , = @ % ~ ! *)

(* Every pattern is compiled as "(?s)(^|/)(?:%s)$": with the `s` flag '.'
   matches every byte, '\n' included ([RAny]); `^`/`$` are begin/end of text.

   a line containing '/' (directoryRegexp `.*\/`): the text itself followed by
   ".*"; '.' keeps its regexp meaning; '*' is not modelled there *)
Fixpoint dir_line_regex (l : bytes) : option regex :=
  match l with
  | [] => Some (RStar RAny)
  | c :: r =>
    match dir_line_regex r with
    | None => None
    | Some t =>
      if is_inert c then Some (RCat (RChar c) t)
      else if beqb c x2e then Some (RCat RAny t)
      else None
    end
  end.

(* other lines: '.' -> "\." and '*' -> ".*" *)
Fixpoint file_line_regex (l : bytes) : option regex :=
  match l with
  | [] => Some REps
  | c :: r =>
    match file_line_regex r with
    | None => None
    | Some t =>
      if beqb c x2a then Some (RCat (RStar RAny) t)
      else if beqb c x2e then Some (RCat (RChar c) t)
      else if is_inert c then Some (RCat (RChar c) t)
      else None
    end
  end.

Definition ign_line (l : bytes) : option regex :=
  if re_search re_directoryRegexp l then dir_line_regex l else file_line_regex l.

(* the built-in first pattern `\.goit/.*` *)
Definition ign_builtin : regex := RCat (RLit (str ".goit/"%string)) (RStar RAny).

(* an EMPTY line (zero bytes between two line feeds, or what is left once the
   scanner has removed a trailing carriage return) is not an entry: it is
   skipped (`if text == "" { continue }`).  As a pattern it would be
   `(^|/)(?:)$`, which matches every directory target "d/".  A line of blanks
   only is NOT skipped: Goit does not trim ignore lines. *)
Fixpoint ign_lines (ls : list bytes) : option (list regex) :=
  match ls with
  | [] => Some []
  | [] :: r => ign_lines r
  | l :: r =>
    match ign_line l, ign_lines r with
    | Some x, Some xs => Some (x :: xs)
    | _, _ => None
    end
  end.

(* None: some line is outside the modelled alphabet *)
Definition ign_load (file : option bytes) : option (list regex) :=
  match file with
  | None => Some [ign_builtin]
  | Some b => match ign_lines (scan_lines b) with
              | Some l => Some (ign_builtin :: l)
              | None => None
              end
  end.

(* `(^|/)(?:p)$` searched in target: p matches a suffix of target that starts
   at the beginning or right after a '/' *)
Fixpoint boundary_match (r : regex) (at_boundary : bool) (s : bytes) : bool :=
  (at_boundary && matches r s)
  || match s with
     | [] => false
     | c :: t => boundary_match r (beqb c c_slash) t
     end.
Definition ign_match (pats : list regex) (target : bytes) : bool :=
  existsb (fun r => boundary_match r true target) pats.
