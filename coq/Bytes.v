(* Bytes.v — byte strings as [list byte]: equality, Go's string order, decimal
   and hexadecimal text, splitting.  Definitions only (facts are in BytesFacts.v). *)
From Coq Require Import Strings.Byte Strings.String.
From Coq Require Import List Bool NArith Arith.
Import ListNotations.
Local Open Scope N_scope.

Definition bytes := list byte.

Definition str (s : string) : bytes := list_byte_of_string s.

Definition bN (b : byte) : N := Byte.to_N b.
Definition Nb (n : N) : byte := match Byte.of_N n with Some b => b | None => x00 end.

Definition beqb (a b : byte) : bool := Byte.eqb a b.

Fixpoint bytes_eqb (a b : bytes) : bool :=
  match a, b with
  | [], [] => true
  | x :: a', y :: b' => beqb x y && bytes_eqb a' b'
  | _, _ => false
  end.

(* Go: string(a) < string(b) — bytewise lexicographic, a proper prefix is smaller *)
Fixpoint blt (a b : bytes) : bool :=
  match a, b with
  | _, [] => false
  | [], _ :: _ => true
  | x :: a', y :: b' =>
      if N.ltb (bN x) (bN y) then true
      else if N.ltb (bN y) (bN x) then false
      else blt a' b'
  end.

Definition lenN (b : bytes) : N := N.of_nat (length b).

Fixpoint is_prefix (p s : bytes) : bool :=
  match p, s with
  | [], _ => true
  | _ :: _, [] => false
  | x :: p', y :: s' => beqb x y && is_prefix p' s'
  end.

Definition is_nil {A} (l : list A) : bool := match l with [] => true | _ => false end.

(* ---------- characters ---------- *)
Definition c_sp : byte := x20.
Definition c_nl : byte := x0a.
Definition c_cr : byte := x0d.
Definition c_tab : byte := x09.
Definition c_nul : byte := x00.
Definition c_slash : byte := x2f.

Definition is_digit (b : byte) : bool := N.leb 48 (bN b) && N.leb (bN b) 57.
Definition digit_val (b : byte) : N := bN b - 48.
Definition digit_of (d : N) : byte := Nb (48 + d).

(* ---------- decimal ---------- *)
(* fmt.Sprint / %d of a non-negative integer *)
Fixpoint dec_aux (fuel : nat) (n : N) (acc : bytes) : bytes :=
  match fuel with
  | O => acc
  | S f =>
      let acc' := digit_of (n mod 10) :: acc in
      if N.ltb n 10 then acc' else dec_aux f (n / 10) acc'
  end.
Definition dec (n : N) : bytes := dec_aux (S (N.size_nat n)) n [].

(* value of a string of digits (no validation) *)
Definition digits_val (s : bytes) : N :=
  fold_left (fun acc d => acc * 10 + digit_val d) s 0.

Definition all_digits (s : bytes) : bool := forallb is_digit s.

(* strconv.Atoi / ParseInt restricted to what Goit feeds it: optional sign is
   NOT used by Goit's inputs (they come from \d+ sub-matches); we model
   non-empty all-digit strings and reject everything else. *)
Definition parse_dec (s : bytes) : option N :=
  match s with
  | [] => None
  | _ => if all_digits s then Some (digits_val s) else None
  end.

(* longest digit prefix *)
Fixpoint span_digits (s : bytes) : bytes * bytes :=
  match s with
  | [] => ([], [])
  | c :: r => if is_digit c then let '(a, b) := span_digits r in (c :: a, b) else ([], s)
  end.

(* ---------- hexadecimal ---------- *)
Definition hex_digit (n : N) : byte :=
  if N.ltb n 10 then Nb (48 + n) else Nb (87 + n).     (* 0-9 a-f *)
Fixpoint hex (b : bytes) : bytes :=
  match b with
  | [] => []
  | c :: r => hex_digit (bN c / 16) :: hex_digit (bN c mod 16) :: hex r
  end.

(* encoding/hex.DecodeString accepts both cases *)
Definition unhex_digit (c : byte) : option N :=
  let n := bN c in
  if N.leb 48 n && N.leb n 57 then Some (n - 48)
  else if N.leb 97 n && N.leb n 102 then Some (n - 87)
  else if N.leb 65 n && N.leb n 70 then Some (n - 55)
  else None.
Fixpoint unhex (s : bytes) : option bytes :=
  match s with
  | [] => Some []
  | [_] => None
  | a :: b :: r =>
      match unhex_digit a, unhex_digit b, unhex r with
      | Some x, Some y, Some t => Some (Nb (16 * x + y) :: t)
      | _, _, _ => None
      end
  end.

Definition is_lower_hex (c : byte) : bool :=
  let n := bN c in (N.leb 48 n && N.leb n 57) || (N.leb 97 n && N.leb n 102).

(* ---------- splitting ---------- *)
(* split at the first occurrence of byte [sep]: strings.SplitN(s, sep, 2) *)
Fixpoint split1 (sep : byte) (s : bytes) : bytes * option bytes :=
  match s with
  | [] => ([], None)
  | c :: r => if beqb c sep then ([], Some r)
              else let '(a, b) := split1 sep r in (c :: a, b)
  end.

(* strings.Split(s, sep) for a one-byte separator; never empty *)
Fixpoint split_all (sep : byte) (s : bytes) : list bytes :=
  match s with
  | [] => [[]]
  | c :: r =>
      if beqb c sep then [] :: split_all sep r
      else match split_all sep r with
           | [] => [[c]]
           | h :: t => (c :: h) :: t
           end
  end.

(* split at the first occurrence of a multi-byte separator *)
Fixpoint split1s (sep : bytes) (s : bytes) : bytes * option bytes :=
  if is_prefix sep s then ([], Some (skipn (length sep) s))
  else match s with
       | [] => ([], None)
       | c :: r => let '(a, b) := split1s sep r in (c :: a, b)
       end.

Fixpoint contains_byte (c : byte) (s : bytes) : bool :=
  match s with [] => false | x :: r => beqb x c || contains_byte c r end.

(* last element of a non-empty list with a default *)
Definition last_or {A} (l : list A) (d : A) : A := last l d.

(* strings.Join *)
Fixpoint join (sep : bytes) (l : list bytes) : bytes :=
  match l with
  | [] => []
  | [x] => x
  | x :: r => x ++ sep ++ join sep r
  end.

(* bufio.Scanner with ScanLines: lines separated by \n, a trailing \r of each
   line dropped, a final unterminated non-empty line is a line, nothing after
   the final \n.  No token limit: since repair F52 Goit's readers of the config files, the reflog
   and .goitignore raise the scanner's limit, and commit objects are split at \n (lf_lines, F50). *)
Definition drop_cr (l : bytes) : bytes :=
  match rev l with
  | c :: r => if beqb c c_cr then rev r else l
  | [] => l
  end.
Fixpoint scan_lines_aux (cur : bytes) (s : bytes) : list bytes :=
  match s with
  | [] => match cur with [] => [] | _ => [drop_cr (rev cur)] end
  | c :: r => if beqb c c_nl then drop_cr (rev cur) :: scan_lines_aux [] r
              else scan_lines_aux (c :: cur) r
  end.
Definition scan_lines (s : bytes) : list bytes := scan_lines_aux [] s.

(* strings.Split(s, "\n") with a final empty piece dropped (the commit reader
   after its repair): lines separated by \n only, every other byte kept, no
   length limit *)
Definition lf_lines (s : bytes) : list bytes :=
  let l := split_all c_nl s in
  if is_nil (last l []) then removelast l else l.

(* strings.TrimSpace, ASCII white space only (U+0085/U+00A0 and other Unicode
   spaces, which Go also trims, are outside the modelled value domain) *)
Definition is_space (c : byte) : bool :=
  let n := bN c in
  N.eqb n 32 || (N.leb 9 n && N.leb n 13).
Fixpoint trim_left (s : bytes) : bytes :=
  match s with
  | c :: r => if is_space c then trim_left r else s
  | [] => []
  end.
Definition trim_space (s : bytes) : bytes := rev (trim_left (rev (trim_left s))).

(* big-endian fixed-width numbers *)
Definition be16 (n : N) : bytes := [Nb ((n / 256) mod 256); Nb (n mod 256)].
Definition be32 (n : N) : bytes :=
  [Nb ((n / 16777216) mod 256); Nb ((n / 65536) mod 256); Nb ((n / 256) mod 256); Nb (n mod 256)].
Definition unbe (b : bytes) : N := fold_left (fun acc c => acc * 256 + bN c) b 0.
